---------------------------- MODULE MC_BinsIdx ----------------------------
(* The index lemma of C12/C06 on boundary coordinates: four coordinates.  *)
EXTENDS Bins, TLC
IdxCoords == UNION {{m * Sz(k) + d : m \in {0, 1, 8}, d \in {-1, 0, 1}} : k \in {0, 1, 3}} \cup {1, MAXC - 1, MAXC, MAXC + 1}
VARIABLES fs, fe, qs, qe
Init == fs \in IdxCoords /\ fe \in IdxCoords /\ qs \in IdxCoords /\ qe \in IdxCoords /\ fs <= fe /\ qs <= qe
Next == UNCHANGED <<fs, fe, qs, qe>>
InvIdx == OneInSet(fs, fe, qs, qe)
\* non-vacuity: how often the antecedent holds is reported through TLCGet/TLCSet by the driver config
Antecedent == fs <= fe /\ qs <= qe /\ InRange(fs, fe, "gff") /\ InRange(qs, qe, "gff") /\ Overlap(fs, fe, qs, qe)
=============================================================================
