------------------------------ MODULE Prelude ------------------------------
(***************************************************************************)
(* Text in this specification is a sequence of Unicode code points.        *)
(* Python's str operations used by gffutils, transcribed once.             *)
(***************************************************************************)
EXTENDS Integers, Sequences, FiniteSets

SEMI == 59  SP == 32  EQ == 61  QT == 34  COMMA == 44  PCT == 37  TAB == 9  NL == 10  CR == 13
DOT == 46  MINUS == 45  UNDER == 95  COLON == 58  REPL == 65533

ToSet(sq) == {sq[i] : i \in 1..Len(sq)}
Last(sq) == sq[Len(sq)]
Front(sq) == SubSeq(sq, 1, Len(sq) - 1)
Max2(a, b) == IF a >= b THEN a ELSE b
Min2(a, b) == IF a <= b THEN a ELSE b

\* ---- str.split(sep): left to right, non-overlapping; "".split(x) = [""]
IsAt(s, sep, i) == i + Len(sep) - 1 <= Len(s) /\ SubSeq(s, i, i + Len(sep) - 1) = sep
RECURSIVE SplitAt(_, _, _)
SplitAt(s, sep, acc) ==
  IF s = <<>> THEN <<acc>>
  ELSE IF IsAt(s, sep, 1) THEN <<acc>> \o SplitAt(SubSeq(s, Len(sep) + 1, Len(s)), sep, <<>>)
  ELSE SplitAt(Tail(s), sep, Append(acc, Head(s)))
Split(s, sep) == SplitAt(s, sep, <<>>)

\* ---- sep.join(parts)
RECURSIVE Join(_, _)
Join(parts, sep) == IF parts = <<>> THEN <<>> ELSE IF Len(parts) = 1 THEN parts[1]
                    ELSE parts[1] \o sep \o Join(Tail(parts), sep)

\* ---- str.isspace() per character (Python 3: Unicode White_Space + bidirectional types WS, B, S)
IsSpace(c) == c \in 9..13 \/ c \in 28..32 \/ c = 133 \/ c = 160 \/ c = 5760 \/ c \in 8192..8202
              \/ c = 8232 \/ c = 8233 \/ c = 8239 \/ c = 8287 \/ c = 12288
RECURSIVE LStripW(_)
LStripW(s) == IF s # <<>> /\ IsSpace(Head(s)) THEN LStripW(Tail(s)) ELSE s
RECURSIVE RStripW(_)
RStripW(s) == IF s # <<>> /\ IsSpace(Last(s)) THEN RStripW(Front(s)) ELSE s
Strip(s) == RStripW(LStripW(s))                \* str.strip()

RECURSIVE RStripChars(_, _)                    \* str.rstrip(chars)
RStripChars(s, cs) == IF s # <<>> /\ Last(s) \in cs THEN RStripChars(Front(s), cs) ELSE s

\* ---- str(int) for naturals, and code-point (= Python / SQLite BINARY) order on text
RECURSIVE Digits(_)
Digits(n) == IF n < 10 THEN <<48 + n>> ELSE Digits(n \div 10) \o <<48 + (n % 10)>>
IntStr(n) == IF n < 0 THEN <<MINUS>> \o Digits(-n) ELSE Digits(n)

RECURSIVE LexLess(_, _)
LexLess(a, b) == IF b = <<>> THEN FALSE ELSE IF a = <<>> THEN TRUE
                 ELSE IF Head(a) # Head(b) THEN Head(a) < Head(b) ELSE LexLess(Tail(a), Tail(b))
LexLeq(a, b) == a = b \/ LexLess(a, b)

\* ---- list helpers
IndexOfFirst(sq, x) == IF \E i \in 1..Len(sq) : sq[i] = x
                       THEN CHOOSE i \in 1..Len(sq) : sq[i] = x /\ \A j \in 1..(i - 1) : sq[j] # x ELSE 0
Contains(sq, x) == \E i \in 1..Len(sq) : sq[i] = x
RECURSIVE Dedup(_, _)                          \* first occurrences, in order
Dedup(sq, acc) == IF sq = <<>> THEN acc
                  ELSE Dedup(Tail(sq), IF Contains(acc, Head(sq)) THEN acc ELSE Append(acc, Head(sq)))
NoDup(sq) == \A i, j \in 1..Len(sq) : i # j => sq[i] # sq[j]

\* stable sort by a strict weak order on INDICES (Less(i, j) compares sq[i] with sq[j]); non-recursive
\* so that the order can be passed as an operator:  rank(i) = #smaller + #equal-and-earlier + 1
StableSortIdx(sq, Less(_, _)) ==
  LET n == Len(sq)
      rank == [i \in 1..n |-> 1 + Cardinality({j \in 1..n : Less(j, i) \/ (~Less(i, j) /\ ~Less(j, i) /\ j < i)})]
  IN [r \in 1..n |-> sq[CHOOSE i \in 1..n : rank[i] = r]]
IsSortedBy(Leq(_, _), sq) == \A i \in 1..(Len(sq) - 1) : Leq(sq[i], sq[i + 1])

\* multiset equality of two sequences
Count(sq, x) == Cardinality({i \in 1..Len(sq) : sq[i] = x})
SameBag(a, b) == Len(a) = Len(b) /\ \A i \in 1..Len(a) : Count(a, a[i]) = Count(b, a[i])

RECURSIVE SumSeq(_)
SumSeq(sq) == IF sq = <<>> THEN 0 ELSE Head(sq) + SumSeq(Tail(sq))
RECURSIVE FlatSeq(_)
FlatSeq(sqs) == IF sqs = <<>> THEN <<>> ELSE Head(sqs) \o FlatSeq(Tail(sqs))
=============================================================================
