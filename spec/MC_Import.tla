------------------------------ MODULE MC_Import ------------------------------
(* C01 bounded instance: files of 1..MaxLines lines in one dialect d (3 separators x trailing ; x
   {key=value, GTF quoted, GFF2 blank} x comma-list/repeated keys), each line from a menu of attribute
   shapes (1-3 attributes incl. different key orders, a multi-valued key, an escaped value, a valueless
   flag, an empty column) and column shapes ('.' coordinates, extra columns), checklines 0..2.
   Invariants: StoredOnce, PrintIdentity (for consistent files), ReimportEquivalent.
   Every file is printed with the expected stored content and printed text.                            *)
EXTENDS ImportModel, Json
CONSTANT MaxLines, PrintMod
KX == <<120>>  KY == <<121>>  KP == <<112>>  KQ == <<113>>
T_Alias == <<65, 108, 105, 97, 115>>  T_Note == <<78, 111, 116, 101>>  T_flag == <<102, 108, 97, 103>>
AttrMenu(i) == LET x == <<120, 48 + i>> IN      \* the ID value is unique per line
  << <<<<T_ID, <<x>>>>>>,
     <<<<T_ID, <<x>>>>, <<T_Name, <<KY>>>>>>,
     <<<<T_Name, <<KY>>>>, <<T_ID, <<x>>>>>>,
     <<<<T_ID, <<x>>>>, <<T_Alias, <<KP, KQ>>>>>>,
     <<<<T_ID, <<x>>>>, <<T_Note, <<<<97, SEMI, 98>>>>>>>>,
     <<<<T_ID, <<x>>>>, <<T_flag, <<>>>>>>,
     <<>>,
     <<<<T_ID, <<x>>>>, <<T_Name, <<KY>>>>, <<T_Alias, <<KP>>>>>> >>
NMenu == 8
Styles == { [kvsep |-> <<EQ>>, quoted |-> FALSE, fmt |-> "gff3"], [kvsep |-> <<SP>>, quoted |-> TRUE, fmt |-> "gtf"], [kvsep |-> <<SP>>, quoted |-> FALSE, fmt |-> "gff3"] }
Dials == { [lead |-> FALSE, trail |-> t, quoted |-> st.quoted, fsep |-> fs, kvsep |-> st.kvsep, mvsep |-> <<COMMA>>, fmt |-> st.fmt, rep |-> r, order |-> <<>>] :
            t \in BOOLEAN, fs \in {<<SEMI>>, <<SEMI, SP>>, <<SP, SEMI, SP>>}, st \in Styles, r \in BOOLEAN }
\* a GTF line cannot carry an escaped ';' (no escaping): the menu entry 5 is skipped for the gtf style
RowsOK(d, sel) == \A i \in 1..Len(sel) : ~(d.fmt = "gtf" /\ sel[i] = 5)
Rows(sel) == [i \in 1..Len(sel) |-> [n |-> (sel[i] * 5 + i) % 18, a |-> AttrMenu(i)[sel[i]]]]

VARIABLES sel, d, cl, done, res, cons
Init == sel \in UNION {[1..n -> 1..NMenu] : n \in 0..(MaxLines - 1)} /\ d \in Dials /\ cl = 0 /\ done = FALSE /\ res = [st |-> "none"] /\ cons = FALSE
Hash(s, c) == SumSeq([i \in 1..Len(s) |-> s[i] * (i + 2)]) + c
Next == /\ ~done /\ done' = TRUE
        /\ \E last \in 0..NMenu : sel' = IF last = 0 THEN sel ELSE Append(sel, last)
        /\ sel' # <<>> /\ d' = d /\ RowsOK(d', sel')
        /\ cl' \in 0..2
        /\ LET rows == Rows(sel')  lines == FileLines(d, rows) IN
           /\ res' = ImportText(lines, cl')
           /\ cons' = Consistent(d, rows, cl')
           /\ ((Hash(sel', cl') + Len(d.fsep) + (IF d.trail THEN 1 ELSE 0)) % PrintMod # 0) \/
              PrintT(ToJson([lines |-> lines, cl |-> cl', consistent |-> cons', st |-> res'.st, dialect |-> res'.db.dialect, feats |-> res'.db.feats,
                             printed |-> PrintAll(res'.db, TRUE, FALSE), printedSorted |-> PrintAll(res'.db, TRUE, TRUE)]))
RowsNow == Rows(sel)
LinesNow == FileLines(d, RowsNow)
Res == res
\* every line is stored exactly once, in input order, with its columns, extra columns and attributes
InvStoredOnce == done => /\ Res.st = "ok" /\ Len(Res.db.feats) = Len(sel)
                         /\ \A i \in 1..Len(sel) : LET f == Res.db.feats[i]  p == ParseLine(LinesNow[i], Res.db.dialect) IN
                               [f EXCEPT !.id = <<>>] = WithId(p)
                         /\ NoDup([i \in 1..Len(sel) |-> Res.db.feats[i].id])
\* byte identity of the printed form whenever the file is written in one consistent dialect
InvPrintIdentity == (done /\ cons) =>
                      /\ PrintAll(Res.db, TRUE, FALSE) = LinesNow
                      /\ \A i \in 1..Len(sel) : Res.db.feats[i].attrs = RowsNow[i].a
\* re-importing the printed features gives an equivalent database (for consistent files)
InvReimport == (done /\ cons) =>
                 LET again == ImportText(PrintAll(Res.db, TRUE, FALSE), cl) IN
                 again.st = "ok" /\ again.db.feats = Res.db.feats /\ again.db.rels = Res.db.rels
=============================================================================
