----------------------------- MODULE AttrSyntax -----------------------------
(***************************************************************************)
(* Column 9 of GFF/GTF at character level (parser.py), and whole lines     *)
(* (feature.py feature_from_line / Feature.__str__).                       *)
(*                                                                         *)
(* Attributes are a sequence of <<key, <<value, ...>>>> in first-insertion *)
(* order; a dialect is the record                                          *)
(*   [lead, trail, quoted : BOOLEAN, fsep, kvsep, mvsep : text,            *)
(*    fmt : "gff3" | "gtf", rep : BOOLEAN, order : Seq(text)]              *)
(*                                                                         *)
(* Algorithmic layer (transcriptions):                                     *)
(*   Infer(s)          _split_keyvals(s, dialect=None)                     *)
(*   ParseWith(s, d)   _split_keyvals(s, dialect=d)                        *)
(*   Render(a,d,k,sv)  _reconstruct(a, d, keep_order=k, sort_attribute_values=sv) *)
(*   Quote / Unquote   Quoter / urllib.parse.unquote                       *)
(*   FromLine / ToLine feature_from_line / str(Feature)                    *)
(* Declarative layer: InGrammar, Observable, RoundTrip, Lossless, Total    *)
(***************************************************************************)
EXTENDS Prelude

CONSTANT WordNA     \* non-ASCII code points matched by Python's \w (side table for traces; {} in models)

IsWord(c) == c \in 48..57 \/ c \in 65..90 \/ c \in 97..122 \/ c = UNDER \/ c \in WordNA
HexVal(c) == IF c \in 48..57 THEN c - 48 ELSE IF c \in 65..70 THEN c - 55 ELSE IF c \in 97..102 THEN c - 87 ELSE -1
HexDigit(n) == IF n < 10 THEN 48 + n ELSE 55 + n

T_ID == <<73, 68>>  T_Name == <<78, 97, 109, 101>>
T_gene_id == <<103, 101, 110, 101, 95, 105, 100>>
T_transcript_id == <<116, 114, 97, 110, 115, 99, 114, 105, 112, 116, 95, 105, 100>>

DefaultDialect ==
  [lead |-> FALSE, trail |-> FALSE, quoted |-> FALSE, fsep |-> <<SEMI>>, kvsep |-> <<EQ>>, mvsep |-> <<COMMA>>,
   fmt |-> "gff3", rep |-> FALSE, order |-> <<T_ID, T_Name, T_gene_id, T_transcript_id>>]

(***************************************************************************)
(* Percent-encoding.  Quoter: each character of "\n\t\r%;=&," and of the   *)
(* controls 0..31, 127 becomes %XX (upper case).  unquote: per maximal     *)
(* ASCII run, %XX -> byte, then UTF-8 decoding with errors='replace'.      *)
(***************************************************************************)
ToQuote(c) == c \in 0..31 \/ c = 127 \/ c \in {PCT, SEMI, EQ, 38, COMMA}
RECURSIVE Quote(_)
Quote(v) == IF v = <<>> THEN <<>>
            ELSE (IF ToQuote(Head(v)) THEN <<PCT, HexDigit(Head(v) \div 16), HexDigit(Head(v) % 16)>> ELSE <<Head(v)>>)
                 \o Quote(Tail(v))

IsCont(b) == b \in 128..191
\* number of bytes the decoder consumes at the head of bs, and the code point it yields
Utf8Head(bs) ==
  LET b1 == bs[1]
      n  == Len(bs)
      b2 == IF n >= 2 THEN bs[2] ELSE -1
      b3 == IF n >= 3 THEN bs[3] ELSE -1
      b4 == IF n >= 4 THEN bs[4] ELSE -1
      bad(k) == [take |-> k, cp |-> REPL]
  IN IF b1 < 128 THEN [take |-> 1, cp |-> b1]
     ELSE IF b1 \in 194..223
          THEN IF IsCont(b2) THEN [take |-> 2, cp |-> (b1 - 192) * 64 + (b2 - 128)] ELSE bad(1)
     ELSE IF b1 \in 224..239
          THEN LET ok2 == IF b1 = 224 THEN b2 \in 160..191 ELSE IF b1 = 237 THEN b2 \in 128..159 ELSE IsCont(b2)
               IN IF ~ok2 THEN bad(1) ELSE IF ~IsCont(b3) THEN bad(2)
                  ELSE [take |-> 3, cp |-> (b1 - 224) * 4096 + (b2 - 128) * 64 + (b3 - 128)]
     ELSE IF b1 \in 240..244
          THEN LET ok2 == IF b1 = 240 THEN b2 \in 144..191 ELSE IF b1 = 244 THEN b2 \in 128..143 ELSE IsCont(b2)
               IN IF ~ok2 THEN bad(1) ELSE IF ~IsCont(b3) THEN bad(2) ELSE IF ~IsCont(b4) THEN bad(3)
                  ELSE [take |-> 4, cp |-> (b1 - 240) * 262144 + (b2 - 128) * 4096 + (b3 - 128) * 64 + (b4 - 128)]
     ELSE bad(1)
RECURSIVE Utf8Decode(_)
Utf8Decode(bs) == IF bs = <<>> THEN <<>>
                  ELSE LET h == Utf8Head(bs) IN <<h.cp>> \o Utf8Decode(SubSeq(bs, h.take + 1, Len(bs)))

\* bytes of one ASCII run
RECURSIVE RunBytes(_)
RunBytes(v) ==
  IF v = <<>> THEN <<>>
  ELSE IF Head(v) = PCT /\ Len(v) >= 3 /\ HexVal(v[2]) >= 0 /\ HexVal(v[3]) >= 0
       THEN <<16 * HexVal(v[2]) + HexVal(v[3])>> \o RunBytes(SubSeq(v, 4, Len(v)))
       ELSE <<Head(v)>> \o RunBytes(Tail(v))
\* length of the maximal ASCII prefix
RECURSIVE AsciiPrefix(_)
AsciiPrefix(v) == IF v = <<>> \/ Head(v) >= 128 THEN 0 ELSE 1 + AsciiPrefix(Tail(v))
RECURSIVE Unquote(_)
Unquote(v) ==
  IF v = <<>> THEN <<>>
  ELSE IF Head(v) >= 128 THEN <<Head(v)>> \o Unquote(Tail(v))
  ELSE LET n == AsciiPrefix(v) IN Utf8Decode(RunBytes(SubSeq(v, 1, n))) \o Unquote(SubSeq(v, n + 1, Len(v)))

(***************************************************************************)
(* Splitting one attribute string                                          *)
(***************************************************************************)
AttrIndex(q, k) == IF \E i \in 1..Len(q) : q[i][1] = k THEN CHOOSE i \in 1..Len(q) : q[i][1] = k ELSE 0
AttrGet(q, k) == q[AttrIndex(q, k)][2]
AttrHas(q, k) == AttrIndex(q, k) # 0
AttrKeys(q) == [i \in 1..Len(q) |-> q[i][1]]
AttrExtend(q, k, vals) == LET i == AttrIndex(q, k) IN
                          IF i = 0 THEN Append(q, <<k, vals>>) ELSE [q EXCEPT ![i] = <<k, q[i][2] \o vals>>]
AttrSet(q, k, vals) == LET i == AttrIndex(q, k) IN
                       IF i = 0 THEN Append(q, <<k, vals>>) ELSE [q EXCEPT ![i] = <<k, vals>>]
MapValues(q, F(_)) == [i \in 1..Len(q) |-> <<q[i][1], [j \in 1..Len(q[i][2]) |-> F(q[i][2][j])]>>]

\* item -> (key, val):  1 piece: (p, ""), 2 pieces: (p1, p2), more: (p1, sep.join(rest))
KV(pieces, sep) == <<pieces[1], Join(Tail(pieces), sep)>>
IsQuoted(val) == Len(val) > 0 /\ val[1] = QT /\ Last(val) = QT
StripQuotes(val) == SubSeq(val, 2, Len(val) - 1)

MatchKw(p) == \E n \in 1..Len(p) : (\A i \in 1..n : IsWord(p[i])) /\ n + 1 <= Len(p) /\ p[n + 1] = EQ   \* re.match(r"\w+=")

\* ---- inference path
InferStep(st, item) ==
  LET key == item[1]
      val0 == item[2]
      rep1 == st.rep \/ AttrHas(st.q, key)
      q1 == IF AttrHas(st.q, key) THEN st.q ELSE Append(st.q, <<key, <<>>>>)
      isq == IsQuoted(val0)
      val == IF isq THEN StripQuotes(val0) ELSE val0
      vs == Split(val, <<COMMA>>)
      newvals == IF val = <<>> THEN <<>>
                 ELSE IF rep1 THEN <<val>>
                 ELSE IF \E j \in 1..Len(vs) : vs[j] # <<>> /\ vs[j][1] = SP THEN <<val>> ELSE vs
  IN [q |-> AttrExtend(q1, key, newvals), rep |-> rep1, quoted |-> st.quoted \/ isq, order |-> Append(st.order, key)]

RECURSIVE InferFold(_, _)
InferFold(st, items) == IF items = <<>> THEN st ELSE InferFold(InferStep(st, Head(items)), Tail(items))

Infer(s0) ==
  IF s0 = <<>> THEN [attrs |-> <<>>, d |-> DefaultDialect]
  ELSE
  LET trail == Last(s0) = SEMI
      s == IF trail THEN Front(s0) ELSE s0
      p3 == Split(s, <<SP, SEMI, SP>>)  p2 == Split(s, <<SEMI, SP>>)  p1 == Split(s, <<SEMI>>)
      fsep == IF Len(p3) > 1 THEN <<SP, SEMI, SP>> ELSE IF Len(p2) > 1 THEN <<SEMI, SP>> ELSE <<SEMI>>
      parts == IF Len(p3) > 1 THEN p3 ELSE IF Len(p2) > 1 THEN p2 ELSE p1
      gff3 == MatchKw(parts[1])
      lead == ~gff3 /\ \E i \in 1..Len(parts) : parts[i] # <<>> /\ parts[i][1] = SEMI
      items == IF gff3 THEN [i \in 1..Len(parts) |-> KV(Split(parts[i], <<EQ>>), <<EQ>>)]
               ELSE [i \in 1..Len(parts) |->
                       LET p == IF parts[i] # <<>> /\ parts[i][1] = SEMI THEN Tail(parts[i]) ELSE parts[i]
                       IN KV(Split(Strip(p), <<SP>>), <<SP>>)]
      st == InferFold([q |-> <<>>, rep |-> FALSE, quoted |-> FALSE, order |-> <<>>], items)
      fmt == IF ~gff3 /\ st.quoted THEN "gtf" ELSE "gff3"
      q == IF fmt = "gff3" THEN MapValues(st.q, Unquote) ELSE st.q
  IN [attrs |-> q,
      d |-> [lead |-> lead, trail |-> trail, quoted |-> st.quoted, fsep |-> fsep,
             kvsep |-> IF gff3 THEN <<EQ>> ELSE <<SP>>, mvsep |-> <<COMMA>>, fmt |-> fmt, rep |-> st.rep, order |-> st.order]]

\* ---- supplied-dialect path
WithStep(q, item, d) ==
  LET key == item[1]
      q1 == IF AttrHas(q, key) THEN q ELSE Append(q, <<key, <<>>>>)
      val == IF d.quoted /\ IsQuoted(item[2]) THEN StripQuotes(item[2]) ELSE item[2]
  IN IF val = <<>> THEN q1 ELSE AttrExtend(q1, key, Split(val, <<COMMA>>))
RECURSIVE WithFold(_, _, _)
WithFold(q, items, d) == IF items = <<>> THEN q ELSE WithFold(WithStep(q, Head(items), d), Tail(items), d)

ParseWith(s0, d) ==
  IF s0 = <<>> THEN <<>>
  ELSE
  LET s == IF d.trail THEN RStripChars(s0, {SEMI}) ELSE s0
      parts == Split(s, d.fsep)
      items == IF d.fmt = "gff3" THEN [i \in 1..Len(parts) |-> KV(Split(parts[i], d.kvsep), d.kvsep)]
               ELSE [i \in 1..Len(parts) |->
                       LET p == IF i = 1 /\ d.lead THEN (IF parts[i] = <<>> THEN <<>> ELSE Tail(parts[i])) ELSE parts[i]
                       IN KV(Split(Strip(p), d.kvsep), <<SP>>)]
      q == WithFold(<<>>, items, d)
  IN IF d.fmt = "gff3" THEN MapValues(q, Unquote) ELSE q

(***************************************************************************)
(* Printing                                                                *)
(***************************************************************************)
RECURSIVE Expand(_, _)
Expand(attrs, rep) ==
  IF attrs = <<>> THEN <<>>
  ELSE LET k == attrs[1][1]  vs == attrs[1][2] IN
       (IF rep /\ Len(vs) > 1 THEN [i \in 1..Len(vs) |-> <<k, <<vs[i]>>>>] ELSE <<attrs[1]>>) \o Expand(Tail(attrs), rep)

OrderIndex(order, k) == LET i == IndexOfFirst(order, k) IN IF i = 0 THEN 1000000 ELSE i
SortedVals(vs) == StableSortIdx(vs, LAMBDA i, j : LexLess(vs[i], vs[j]))

Part(it, d, sortv) ==
  LET vs == IF sortv THEN SortedVals(it[2]) ELSE it[2] IN
  IF vs # <<>>
  THEN LET vstr == Join(vs, d.mvsep) IN
       IF vstr # <<>> THEN it[1] \o d.kvsep \o (IF d.quoted THEN <<QT>> \o vstr \o <<QT>> ELSE vstr) ELSE it[1]
  ELSE IF d.fmt = "gtf" THEN it[1] \o d.kvsep \o <<QT, QT>> ELSE it[1]

Render(attrs, d, keep, sortv) ==
  IF attrs = <<>> THEN <<>>
  ELSE
  LET enc == IF d.fmt = "gff3" THEN MapValues(attrs, Quote) ELSE attrs
      items0 == Expand(enc, d.rep)
      items == IF keep THEN StableSortIdx(items0, LAMBDA i, j : OrderIndex(d.order, items0[i][1]) < OrderIndex(d.order, items0[j][1]))
               ELSE items0
      parts == [i \in 1..Len(items) |-> Part(items[i], d, sortv)]
  IN Join(parts, d.fsep) \o (IF d.trail THEN <<SEMI>> ELSE <<>>)

(***************************************************************************)
(* Whole lines.  A parsed feature is                                       *)
(*   [cols : 8 texts (start/end normalised: "" and "." are "."),           *)
(*    attrs, extra : Seq(text), d : dialect]                               *)
(* Coordinates in the model are "." or canonical decimals (int(str) is     *)
(* outside what is modelled).                                              *)
(***************************************************************************)
T_DOT == <<DOT>>
NormCoord(t) == IF t = <<>> \/ t = T_DOT THEN T_DOT ELSE t
ColDefault(fields, i) == IF i <= Len(fields) THEN fields[i] ELSE T_DOT

FromFields(fields, dOpt, useD) ==
  LET astr == IF Len(fields) >= 9 THEN fields[9] ELSE <<>>
      inf == Infer(astr)
      d == IF useD THEN dOpt ELSE inf.d
      attrs == IF useD THEN ParseWith(astr, dOpt) ELSE inf.attrs
  IN [cols |-> [i \in 1..8 |-> IF i \in {4, 5} THEN NormCoord(ColDefault(fields, i)) ELSE ColDefault(fields, i)],
      attrs |-> attrs, extra |-> SubSeq(fields, 10, Len(fields)), d |-> d]

FromLine(line, dOpt, useD) == FromFields(Split(RStripChars(line, {NL, CR}), <<TAB>>), dOpt, useD)

ToLine(f, keep, sortv) ==
  Join(f.cols \o <<Render(f.attrs, f.d, keep, sortv)>> \o (IF f.extra # <<>> THEN <<Join(f.extra, <<TAB>>)>> ELSE <<>>), <<TAB>>)

\* str.split(None, 8): runs of whitespace separate; at most 8 splits; the rest keeps inner blanks
RECURSIVE SplitWS(_, _)
SplitWS(s, maxsplit) ==
  LET t == LStripW(s) IN
  IF t = <<>> THEN <<>>
  ELSE IF maxsplit = 0 THEN <<t>>
  ELSE LET n == CHOOSE k \in 1..Len(t) : (k = Len(t) \/ IsSpace(t[k + 1])) /\ \A j \in 1..k : ~IsSpace(t[j])
       IN <<SubSeq(t, 1, n)>> \o SplitWS(SubSeq(t, n + 1, Len(t)), maxsplit - 1)

\* feature_from_line(line, strict=False) for a single-line input
FromLineLoose(line) ==
  LET l == Strip(line) IN
  IF Contains(l, TAB) THEN FromFields(Split(RStripChars(l, {NL, CR}), <<TAB>>), DefaultDialect, FALSE)
  ELSE FromFields(SplitWS(RStripChars(l, {NL, CR}), 8), DefaultDialect, FALSE)
=============================================================================
