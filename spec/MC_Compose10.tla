---------------------------- MODULE MC_Compose10 ----------------------------
(* Block composition for histories (the lemma behind c10's scaled history): the block  a <- b <- {c, d}  and its renamed copy, in ONE database;
   one Delete of {b, c} of both blocks, one Update re-adding b (Parent=a) and adding e (Parent=b) for both blocks, Reopen.  After every step the
   features (as a set of records) and the relations are the union of what the single block gives and its renamed image: delete and update act
   per name, the level-2 closure is computed from level-1 rows and never crosses disjoint blocks.  Checked for every interleaving order of the
   two blocks' lines in the create and in the update.                                                                                        *)
EXTENDS GffDB
KA == <<97>>  KB == <<98>>  KC == <<99>>  KD == <<100>>  KE == <<101>>
T_mRNA == <<109, 82, 78, 65>>
FA == MkF(KA, T_gene, <<>>, <<>>)  FB == MkF(KB, T_mRNA, <<KA>>, <<>>)  FC == MkF(KC, T_exon, <<KB>>, <<>>)
FD == MkF(KD, T_exon, <<KB>>, <<>>)  FE == MkF(KE, T_exon, <<KB>>, <<>>)
Ren(t) == t \o <<95, 50>>
RenF(f) == [f EXCEPT !.attrs = [i \in 1..Len(f.attrs) |-> <<f.attrs[i][1], [j \in 1..Len(f.attrs[i][2]) |-> Ren(f.attrs[i][2][j])]>>]]
RenS(f) == [RenF(f) EXCEPT !.id = Ren(f.id)]
Block == <<FA, FB, FC, FD>>   Upd == <<FB, FE>>
\* the two blocks' lines, block after block or interleaved line by line
Orders(s) == { s \o [i \in 1..Len(s) |-> RenF(s[i])], [i \in 1..(2 * Len(s)) |-> IF i % 2 = 1 THEN s[(i + 1) \div 2] ELSE RenF(s[i \div 2])] }
Cfg0 == [DefaultCfg EXCEPT !.idspec = [kind |-> "default"]]
One == LET c == Create(Block, <<>>, DefaultDialect, Cfg0)
           d == Delete(c.db, {KB, KC})
           u == Update(d, c.ctr, Upd, Cfg0) IN <<c.db, d, u.db>>
FeatSet(db) == {WithId(db.feats[i]) : i \in 1..Len(db.feats)}
Union(db) == [feats |-> FeatSet(db) \cup {RenS(f) : f \in FeatSet(db)}, rels |-> db.rels \cup {<<Ren(r[1]), Ren(r[2]), r[3]>> : r \in db.rels}]
Same(db, want) == FeatSet(db) = want.feats /\ db.rels = want.rels
VARIABLE done
Init == done = FALSE
Next == ~done /\ done' = TRUE
InvCompose == \A o1 \in Orders(Block), o2 \in Orders(Upd) :
   LET c == Create(o1, <<>>, DefaultDialect, Cfg0)
       d == Delete(c.db, {KB, KC, Ren(KB), Ren(KC)})
       u == Update(d, c.ctr, o2, Cfg0) IN
   /\ c.st = "ok" /\ u.st = "ok"
   /\ Same(c.db, Union(One[1])) /\ Same(d, Union(One[2])) /\ Same(u.db, Union(One[3]))
=============================================================================
