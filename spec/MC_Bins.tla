------------------------------ MODULE MC_Bins ------------------------------
(* Bounded instance of Bins: every pair of boundary coordinates, both conventions.
   One state per (start, stop, fmt); the step prints the case with the expected
   observation (driver D1) and the invariants compare the two layers.              *)
EXTENDS BinsX, TLC, Json, Sequences

CONSTANT Full          \* TRUE: quantify the set lemmas over every bin id, FALSE: over probe bins

Mults(k) == IF k = 4 THEN {0, 1, 2, 3}      \* TLC integers are 32-bit
            ELSE {0, 1, 2, 7, 8, 9, (MAXC \div Sz(k)) - 1, MAXC \div Sz(k)}
Coords == UNION {{m * Sz(k) + d : m \in Mults(k), d \in -2..2} : k \in 0..4}
          \cup {2147483646, MAXC + 131072}
SmallCoords == UNION {{m * Sz(k) + d : m \in {0, 1, 8, MAXC \div Sz(k)}, d \in -1..1} : k \in {0, 1, 3}}    \* (8 * 2^29 would overflow TLC integers)

VARIABLES s, e, fmt, done
vars == <<s, e, fmt, done>>

\* Init fixes only s; the step chooses e and fmt, so that the 16 workers share the work
\* (TLC computes and checks initial states on one thread).
Dom == IF Full THEN SmallCoords ELSE Coords
Init == s \in Dom /\ e = 0 /\ fmt = "gff" /\ done = FALSE

Emit(ss, ee, ff) == PrintT(ToJson([s |-> ss, e |-> ee, fmt |-> ff, one |-> OneBin_Alg(ss, ee, ff),
                                   ranges |-> SetRanges_Alg(ss, ee, ff)]))
Next == /\ ~done /\ done' = TRUE /\ s' = s
        /\ e' \in Dom /\ fmt' \in {"gff", "bed"}
        /\ (Full \/ Emit(s, e', fmt'))

Probes ==
  IF Full THEN 0..(MaxBin + 1)
  ELSE {0, 1, 2, 8, 9, MaxBin, MaxBin + 1} \cup
       UNION {{RangeLo(P0(s, fmt), k) + d : d \in -1..1} \cup {RangeHi(e, k) + d : d \in -1..1} : k \in 0..4}

InvOne      == OneBin_Decl(OneBin_Alg(s, e, fmt), s, e, fmt)
InvNoFall   == FallThroughNever(s, e, fmt)
InvComplete == \A x \in Probes : SetComplete(x, s, e, fmt)
InvNear     == \A x \in Probes : SetNear(x, s, e, fmt)
InvOut      == \A x \in Probes : SetOutOfRange(x, s, e, fmt)
\* the single bin is a member of the bin set of the same interval
InvSelf     == (InRange(s, e, fmt) /\ P0(s, fmt) <= Q0(e)) => InSet_Alg(OneBin_Alg(s, e, fmt), s, e, fmt)
=============================================================================
