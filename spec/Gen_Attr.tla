------------------------------ MODULE Gen_Attr ------------------------------
(* Generator driven by seeds from the harness (driver D2: sizes, key names and Unicode beyond
   the bounded models).  IOEnv.SEED_FILE holds [wordna, seeds] with seeds = <<[n, a, d], ...>>;
   for each seed the specification renders the line, classifies it against the grammar and
   prints the case record - the harness never renders or classifies anything itself.
   MODE = "rt": CaseRecord (C07/C09) ; MODE = "ll": lossless record (C08a).                   *)
EXTENDS AttrGrammar, TLC, Json, IOUtils
Data == JsonDeserialize(IOEnv.SEED_FILE)
WordNAFromFile == ToSet(Data.wordna)
Seeds == Data.seeds
VARIABLES i, done
Init == i \in 1..Len(Seeds) /\ done = FALSE
LLRecord(k, a, d) ==
  LET t == Render(a, d, TRUE, FALSE) IN
  [k |-> k, a |-> a, d |-> d, t |-> t, dom |-> LosslessDomain(a, d), f10 |-> Dev_UnquotedGtfStripsEdgeBlanks(a, d),
   exp |-> ParseWith(t, d), lossless |-> Lossless(a, d)]
Next == /\ ~done /\ done' = TRUE /\ i' = i
        /\ LET sd == Seeds[i] IN
           IF IOEnv.MODE = "rt" THEN PrintT(ToJson([k |-> i] @@ CaseRecord(sd.n, sd.a, sd.d)))
           ELSE PrintT(ToJson(LLRecord(i, sd.a, sd.d)))
=============================================================================
