------------------------------- MODULE Handle -------------------------------
(***************************************************************************)
(* A long-lived FeatureDB handle: the composition of the database state    *)
(* machine (GffDB: Create / Update / Delete / Reopen) with the query       *)
(* semantics of C04 (look-up), C06 (region / limit=) and C11 (counts,      *)
(* iteration order).                                                       *)
(*                                                                         *)
(* The listed properties speak of "the stored features".  On a handle that *)
(* lives through a history that means: the features stored NOW.  Every     *)
(* answer is a function of the current database content and of the         *)
(* arguments - never of earlier answers, earlier arguments or of what the  *)
(* content was when the handle was opened (no stale caches, no stale bins  *)
(* of moved features, no remembered extents).                              *)
(*                                                                         *)
(*   Answers(db) : the answers the statement fixes in state db             *)
(*   Coherent    : the answers recorded after a step are Answers(db)       *)
(* MC_Handle explores every history over {delete x, add x, move x (fetch,  *)
(* shift across a bin boundary, write back with merge_strategy='replace'), *)
(* reopen} and prints, per step, Answers(db); the harness drives ONE real  *)
(* handle through each history, asking the whole battery after every step  *)
(* (so that any cache is filled before the next change).  A handle that    *)
(* remembers answers (Dev_RemembersAnswers) is modelled to show that       *)
(* Coherent is not vacuous.                                                *)
(***************************************************************************)
EXTENDS GffDB
R == INSTANCE RegionI
S == INSTANCE Select

\* ---- the answers the statement fixes --------------------------------------
SelRec(db, i) == [id |-> db.feats[i].id, rowid |-> i, seqid |-> db.feats[i].seqid, source |-> db.feats[i].source, ftype |-> db.feats[i].ftype,
                  start |-> db.feats[i].start, end |-> db.feats[i].end, score |-> db.feats[i].score, strand |-> db.feats[i].strand, frame |-> db.feats[i].frame]
SelSet(db) == {SelRec(db, i) : i \in 1..Len(db.feats)}

\* C04: db[key] is the feature stored under key, FeatureNotFoundError otherwise
Lookup(db, key) == IF Has(db, key) THEN [found |-> TRUE, f |-> Get(db, key)] ELSE [found |-> FALSE]
\* C06: a query [seqid, s, e, within]: what must and what may be returned
Query(seqid, s, e, within) == [seqid |-> seqid, s |-> s, e |-> e, within |-> within]
OnSeqid(db, q) == {i \in 1..Len(db.feats) : db.feats[i].seqid = q.seqid}
RegionMust(db, q) == {db.feats[i].id : i \in {j \in OnSeqid(db, q) : R!Must_I(db.feats[j].start, db.feats[j].end, q.s, q.e, q.within)}}
RegionMay(db, q) == {db.feats[i].id : i \in {j \in OnSeqid(db, q) : R!May_I(db.feats[j].start, db.feats[j].end, q.s, q.e, q.within)}}
\* C11: counts, distinct values, full iteration in input (= storage) order
CountOf(db, t) == S!Count_Decl(SelSet(db), t)
InputOrder(db) == [i \in 1..Len(db.feats) |-> db.feats[i].id]

Answers(db, keys, types, queries) ==
  [lookup |-> [k \in 1..Len(keys) |-> [key |-> keys[k]] @@ Lookup(db, keys[k])],
   counts |-> [k \in 1..Len(types) |-> [t |-> types[k], n |-> CountOf(db, types[k])]],
   total |-> CountOf(db, <<>>),
   ftypes |-> S!FeatureTypes_Decl(SelSet(db)), seqids |-> S!Seqids_Decl(SelSet(db)),
   order |-> InputOrder(db),
   regions |-> [k \in 1..Len(queries) |-> [q |-> queries[k], must |-> RegionMust(db, queries[k]), may |-> RegionMay(db, queries[k])]]]
=============================================================================
