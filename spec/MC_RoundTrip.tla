---------------------------- MODULE MC_RoundTrip ----------------------------
EXTENDS AttrGrammar, TLC, Json
CONSTANT Explore     \* TRUE: print every pair that does not round-trip (grammar discovery)

KA == <<97>>  KB == <<98>>  KC == <<99, 49>>       \* keys a, b, c1
Keys == {KA, KB, KC}
X == <<120>>  Y == <<121>>
ValShapes == { <<>>, <<X>>, <<X, Y>>, << <<120, SP, 121>> >>, << <<SEMI>> >>, << <<120, COMMA, 121>> >>, << <<EQ, 120>> >>,
               << <<PCT, 52, 49>> >>, << <<QT, 120, QT>> >>, << <<SP, 120>> >>, << <<120, SP>> >>, <<X, <<SP, 121>> >>, << <<QT>> >> }
Attrs1 == {<< <<k, v>> >> : k \in Keys, v \in ValShapes}
Attrs2 == {<< <<k1, v1>>, <<k2, v2>> >> : k1 \in {KA, KB}, k2 \in {KA, KB, KC}, v1 \in ValShapes, v2 \in ValShapes}
Styles == { [kvsep |-> <<EQ>>, quoted |-> FALSE, fmt |-> "gff3"], [kvsep |-> <<SP>>, quoted |-> TRUE, fmt |-> "gtf"],
            [kvsep |-> <<SP>>, quoted |-> FALSE, fmt |-> "gff3"], [kvsep |-> <<EQ>>, quoted |-> TRUE, fmt |-> "gff3"] }
Dials(a) == { [lead |-> FALSE, trail |-> t, quoted |-> st.quoted, fsep |-> fs, kvsep |-> st.kvsep, mvsep |-> <<COMMA>>, fmt |-> st.fmt,
               rep |-> r, order |-> AttrKeys(a)] :
              t \in BOOLEAN, fs \in {<<SEMI>>, <<SEMI, SP>>, <<SP, SEMI, SP>>}, st \in Styles, r \in BOOLEAN }

VARIABLES a, d, n
Init == a \in {x \in Attrs1 \cup Attrs2 : NoDup(AttrKeys(x))} \cup {<<>>} /\ d = [none |-> TRUE] /\ n = 0
Next == /\ d = [none |-> TRUE] /\ a' = a
        /\ d' \in (IF a = <<>> THEN {DefaultDialect} ELSE Dials(a))
        /\ n' \in 0..11
        /\ (n' = (Len(Render(a, d', TRUE, FALSE)) + Len(a)) % 18)       \* one line shape per pair, spread over the menu
        /\ IF Explore THEN (~InG(a, d') \/ (RoundTrip(a, d') /\ (a = <<>> \/ InfersDialect(a, d')))
                            \/ PrintT(ToJson([a |-> a, d |-> d', t |-> Render(a, d', TRUE, FALSE)])))
           ELSE PrintT(ToJson(CaseRecord(n', a, d')))
In == d # [none |-> TRUE] /\ InG(a, d)
InvRoundTrip == In => RoundTrip(a, d)
InvDialect   == (In /\ a # <<>>) => InfersDialect(a, d)
InvLine      == In => LineRoundTrip(n, a, d)
InvLoose     == (In /\ LooseApplies(n, a, d)) => LooseEqual(n, a, d)
\* the known finding, at design level: every pair that breaks only G7 fails the round trip
InvF13       == (d # [none |-> TRUE] /\ a # <<>> /\ Dev_FirstPartDecidesStyle(a, d)) => ~RoundTrip(a, d)
=============================================================================
