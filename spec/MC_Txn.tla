------------------------------- MODULE MC_Txn -------------------------------
(* Bounded instance of Txn (G02).  Exhaustive: every reachable state of three ids (two stored, one that update() may add), the six func
   pairs below, marks capped at 2 - the history variable is hidden by the VIEW.  Simulation: random histories of a fixed length, each printed
   as one JSON line (labels with the model's outcome, and disk / view / open after every step) for replay into the real FeatureDB. *)
EXTENDS Txn, Json
MC_FuncPairs == {<<"none", "none">>, <<"ok", "ok">>, <<"raise", "none">>, <<"retnone", "none">>, <<"ok", "raise">>, <<"none", "retnone">>, <<"none", "ok">>}
VARIABLE hist
HInit == Init /\ hist = <<>>
HNext == Next /\ hist' = Append(hist, [lab |-> last', disk |-> disk', view |-> view', open |-> open'])
HView == vars
HistLen == 7
PrintHist == Len(hist) = HistLen => PrintT(ToJson(hist))
Bound == Cardinality({r \in view.rels : r[3] = 1}) <= 3 /\ TLCGet("level") <= 7
Bound6 == Cardinality({r \in view.rels : r[3] = 1}) <= 3 /\ TLCGet("level") <= 6
\* reachability witnesses: each must be VIOLATED (the situation exists in the model)
NeverPending == view = disk
NeverLockedUpdate == last.outcome # "locked"
=============================================================================
