------------------------------- MODULE Select -------------------------------
(***************************************************************************)
(* C11: featuretype / strand filters, order_by, reverse, counts.           *)
(* A stored feature here is [id, rowid, seqid, source, ftype, start, end,  *)
(* score, strand, frame] (texts as code points, coordinates as integers).  *)
(* A query is [anyType, ftypes : set of text, strand : text or <<>>,       *)
(*             order : Seq(column name), reverse : BOOLEAN].               *)
(* Declarative: the result is a duplicate-free enumeration of the matching *)
(* features which is sorted by the requested key; ties are free.           *)
(* Algorithmic: what helpers.make_query builds: WHERE clauses in the order *)
(* featuretype, strand; ORDER BY col, col ... ASC|DESC (direction applies  *)
(* to the LAST column only - that is SQL), 'length' = end - start.         *)
(***************************************************************************)
EXTENDS Prelude

TextCols == {"seqid", "source", "featuretype", "score", "strand", "frame"}
IntCols == {"start", "end", "file_order", "length"}
ValidCols == TextCols \cup IntCols

TextKey(f, c) == CASE c = "seqid" -> f.seqid [] c = "source" -> f.source [] c = "featuretype" -> f.ftype
                   [] c = "score" -> f.score [] c = "strand" -> f.strand [] c = "frame" -> f.frame
IntKey(f, c) == CASE c = "start" -> f.start [] c = "end" -> f.end [] c = "file_order" -> f.rowid [] c = "length" -> f.end - f.start

LessCol(f, g, c) == IF c \in TextCols THEN LexLess(TextKey(f, c), TextKey(g, c)) ELSE IntKey(f, c) < IntKey(g, c)
EqCol(f, g, c) == IF c \in TextCols THEN TextKey(f, c) = TextKey(g, c) ELSE IntKey(f, c) = IntKey(g, c)

\* lexicographic comparison on a list of columns, direction dirs[i] \in {"ASC", "DESC"}
RECURSIVE LeqCols(_, _, _, _)
LeqCols(f, g, cols, dirs) ==
  IF cols = <<>> THEN TRUE
  ELSE IF EqCol(f, g, Head(cols)) THEN LeqCols(f, g, Tail(cols), Tail(dirs))
  ELSE IF Head(dirs) = "ASC" THEN LessCol(f, g, Head(cols)) ELSE LessCol(g, f, Head(cols))

Matches(f, q) == (q.anyType \/ f.ftype \in q.ftypes) /\ (q.strand = <<>> \/ f.strand = q.strand)
Matching(F, q) == {f \in F : Matches(f, q)}

\* directions as SQL applies them
Dirs(q) == [i \in 1..Len(q.order) |-> IF q.reverse /\ i = Len(q.order) THEN "DESC" ELSE "ASC"]

(* the statement: each matching feature once; sorted by the key (ascending; descending with reverse for a
   single column); with neither order_by nor filter a full iteration is in input order                    *)
Select_Decl(F, q, res) ==          \* res : sequence of feature records as returned
  /\ NoDup([i \in 1..Len(res) |-> res[i].id])
  /\ ToSet(res) = Matching(F, q)
  /\ (Len(q.order) = 1 \/ (Len(q.order) > 1 /\ ~q.reverse)) => IsSortedBy(LAMBDA a, b : LeqCols(a, b, q.order, Dirs(q)), res)
  /\ (q.order = <<>> /\ q.anyType /\ q.strand = <<>>) => IsSortedBy(LAMBDA a, b : a.rowid <= b.rowid, res)
\* what the SQL promises in addition (multi-column + reverse): checked as conformance, reported as drift
Select_Alg(F, q, res) ==
  /\ Select_Decl(F, q, res)
  /\ (q.order # <<>>) => IsSortedBy(LAMBDA a, b : LeqCols(a, b, q.order, Dirs(q)), res)

Count_Decl(F, t) == Cardinality({f \in F : t = <<>> \/ f.ftype = t})
FeatureTypes_Decl(F) == {f.ftype : f \in F}
Seqids_Decl(F) == {f.seqid : f \in F}
=============================================================================
