---------------------------- MODULE MC_Concurrent ----------------------------
EXTENDS Concurrent
CONSTANT NP
MCProcs == 1..NP
MCNames == {"n1", "n2", "n3"}
MCKind == [p \in 1..NP |-> IF p % 2 = 1 THEN "gff" ELSE "gtf"]
\* generator: the order in which processes take their four shared-state steps (Mk, Wr, Rd, Rm)
VARIABLE sched
GInit == Init /\ sched = <<>>
GNext == \E p \in MCProcs :
           \/ (Populate(p) \/ Ins(p)) /\ sched' = sched
           \/ ((\E n \in MCNames : Mk(p, n)) \/ Wr(p) \/ Rd(p) \/ Rm(p)) /\ sched' = Append(sched, p)
EmitSched == AllDone => PrintT(<<"SCHED", sched>>)
\* private steps commute with everything: take them eagerly so that each schedule is printed once
Eager == \A p \in MCProcs : pc[p] \notin {"start", "ins"}
=============================================================================
