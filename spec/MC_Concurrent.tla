---------------------------- MODULE MC_Concurrent ----------------------------
EXTENDS Concurrent, ConcurrentDecl
CONSTANT NP
MCProcs == 1..NP
MCNames == {"n1", "n2", "n3"}
MCKind == [p \in 1..NP |-> IF p % 2 = 1 THEN "gff" ELSE "gtf"]
\* generator: the order in which processes take their four shared-state steps (Mk, Wr, Rd, Rm)
VARIABLES sched, evs
GInit == Init /\ sched = <<>> /\ evs = <<>>
GNext == UNCHANGED evs /\ \E p \in MCProcs :
           \/ (Populate(p) \/ Ins(p)) /\ sched' = sched
           \/ ((\E n \in MCNames : Mk(p, n)) \/ Wr(p) \/ Rd(p) \/ Rm(p)) /\ sched' = Append(sched, p)
EmitSched == AllDone => PrintT(<<"SCHED", sched>>)
\* refinement: every behaviour of the code-shaped protocol, written down as the events the scheduler would record, is accepted by
\* the declarative judge (ConcurrentDecl) - and with names that are not fresh it is not (the cfg with NameMode = "fixed" must break this)
Listing == DOMAIN tmp
EInit == Init /\ evs = <<>> /\ sched = <<>>
Ev(p, e, n, c) == [p |-> p, ev |-> e, name |-> n, listing |-> Listing, content |-> c, outok |-> TRUE]
ENext == UNCHANGED sched /\ \E p \in MCProcs :
           \/ (Populate(p) \/ Ins(p)) /\ evs' = evs
           \/ \E n \in MCNames : Mk(p, n) /\ evs' = Append(evs, [Ev(p, "mk", n, <<>>) EXCEPT !.listing = Listing])
           \/ Wr(p) /\ evs' = Append(evs, Ev(p, "wr", myTmp[p], <<>>))
           \/ Rd(p) /\ evs' = Append(evs, Ev(p, "rd", myTmp[p], IF Exists(S, myTmp[p]) THEN tmp[myTmp[p]].data ELSE <<"missing">>))
           \/ Rm(p) /\ evs' = Append(evs, Ev(p, "rm", myTmp[p], <<>>))
           \/ pc[p] = "done" /\ ~(\E k \in 1..Len(evs) : evs[k].p = p /\ evs[k].ev = "done") /\ UNCHANGED vars
              /\ evs' = Append(evs, [Ev(p, "done", "", <<>>) EXCEPT !.outok = (outDb[p] = Import(p, Data(p)))])
SetToSeq2(s) == LET RECURSIVE f(_) f(x) == IF x = {} THEN <<>> ELSE LET m == CHOOSE y \in x : TRUE IN <<m>> \o f(x \ {m}) IN f(s)
AsTrace == [np |-> NP, gated |-> TRUE, solo |-> [p \in MCProcs |-> <<Data(p)>>], final |-> SetToSeq2(DOMAIN tmp),
            events |-> [k \in 1..Len(evs) |-> [evs[k] EXCEPT !.listing = SetToSeq2(evs[k].listing)]]]
AllReported == \A p \in MCProcs : \E k \in 1..Len(evs) : evs[k].p = p /\ evs[k].ev = "done"
DeclAccepts == AllReported => DJudge(AsTrace).clause = "ok"
\* private steps commute with everything: take them eagerly so that each schedule is printed once
Eager == \A p \in MCProcs : pc[p] \notin {"start", "ins"}
=============================================================================
