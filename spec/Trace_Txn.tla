------------------------------ MODULE Trace_Txn ------------------------------
(* Judge for recorded histories of one FeatureDB handle (G02).  IOEnv.TRACE_FILE = [steps |-> << [d, v, o, lab, d2, v2, o2], ... >>]: the
   file's and the handle's tables and the transaction flag before and after one public call, with the observed outcome in lab.outcome.
   Verdict per step: Txn!StepOK (the declarative layer: coherence outside a transaction, durability of a normal return, a raise leaves the
   file alone, reopening shows the file, update([]) is a no-op).  Steps that satisfy it but differ from the algorithmic layer are "drift". *)
EXTENDS Txn, Json, IOUtils
Data == JsonDeserialize(IOEnv.TRACE_FILE)
Tb(t) == [alive |-> {t.alive[i] : i \in 1..Len(t.alive)}, rels |-> {<<t.rels[i][1], t.rels[i][2], t.rels[i][3]>> : i \in 1..Len(t.rels)}, mark |-> t.mark]
VARIABLES i, done
TInit == Init /\ i \in 1..Len(Data.steps) /\ done = FALSE
TNext == /\ ~done /\ done' = TRUE /\ i' = i /\ UNCHANGED vars
         /\ LET s == Data.steps[i] IN
              StepOK(Tb(s.d), Tb(s.v), s.o, s.lab, Tb(s.d2), Tb(s.v2), s.o2) \/ PrintT(ToJson([reject |-> i, clause |-> "StepOK"]))
=============================================================================
