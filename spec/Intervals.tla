------------------------------ MODULE Intervals ------------------------------
(***************************************************************************)
(* C15 interfeatures / create_introns / create_splice_sites,               *)
(* C16 merge / children_bp / merge_all, C18 len / sequence / bed12.        *)
(* Features are GffDB feature records; interval arithmetic is on start/end.*)
(***************************************************************************)
EXTENDS GffDB, AttrStore

T_inter == <<105, 110, 116, 101, 114, 95>>                       \* "inter_"
T_seqfeat == <<115, 101, 113, 117, 101, 110, 99, 101, 95, 102, 101, 97, 116, 117, 114, 101>>   \* sequence_feature
T_five == <<102, 105, 118, 101, 95, 112, 114, 105, 109, 101, 95, 99, 105, 115, 95, 115, 112, 108, 105, 99, 101, 95, 115, 105, 116, 101>>
T_three == <<116, 104, 114, 101, 101, 95, 112, 114, 105, 109, 101, 95, 99, 105, 115, 95, 115, 112, 108, 105, 99, 101, 95, 115, 105, 116, 101>>
T_splice == <<115, 112, 108, 105, 99, 101, 95, 115, 105, 116, 101>>
T_intron == <<105, 110, 116, 114, 111, 110>>
PLUS == <<43>>  MINUSS == <<45>>  DOTT == <<DOT>>

(***************************************************************************)
(* C15                                                                     *)
(*  cfg = [newtype : text or <<>> (None), mergeAttrs, numeric : BOOLEAN,   *)
(*         update : attrs to overwrite with (update_attributes) ]          *)
(***************************************************************************)
JoinIds(attrs) ==      \* several ID values are joined by '-' into one
  IF AttrHas(attrs, T_ID) /\ Len(AttrGet(attrs, T_ID)) > 1 THEN AttrSet(attrs, T_ID, <<Join(AttrGet(attrs, T_ID), <<MINUS>>)>>) ELSE attrs
RECURSIVE Overwrite(_, _)
Overwrite(attrs, upd) == IF upd = <<>> THEN attrs ELSE Overwrite(AttrSet(attrs, Head(upd)[1], Head(upd)[2]), Tail(upd))
GapAttrs(a, b, cfg) == JoinIds(Overwrite(IF cfg.mergeAttrs THEN Merge_Decl(a.attrs, b.attrs, cfg.numeric) ELSE <<>>, cfg.update))
\* new_featuretype=None (cfg.newtype = <<>> and no typeGiven field) names the gap after its neighbours; ANY given text is used as it is - the empty string too
TypeGiven(cfg) == IF "typeGiven" \in DOMAIN cfg THEN cfg.typeGiven ELSE cfg.newtype # <<>>
GapType(a, b, cfg) == IF ~TypeGiven(cfg) THEN T_inter \o a.ftype \o <<UNDER>> \o b.ftype ELSE cfg.newtype
GapStrand(a, b) == IF a.strand = b.strand THEN b.strand ELSE DOTT
Gap(a, b, cfg) == [seqid |-> b.seqid, start |-> a.end + 1, end |-> b.start - 1, strand |-> GapStrand(a, b), ftype |-> GapType(a, b, cfg),
                   attrs |-> GapAttrs(a, b, cfg)]

\* declarative: one gap per consecutive same-seqid pair with at least one base between
Inter_Decl(fs, cfg) ==
  LET idx == {i \in 1..(Len(fs) - 1) : fs[i].seqid = fs[i + 1].seqid /\ fs[i].end + 1 <= fs[i + 1].start - 1}
      order == [k \in 1..Cardinality(idx) |-> CHOOSE i \in idx : Cardinality({j \in idx : j < i}) = k - 1]
  IN [k \in 1..Cardinality(idx) |-> Gap(fs[order[k]], fs[order[k] + 1], cfg)]

\* algorithmic: the running construction with one re-used dictionary (interface.py interfeatures)
RECURSIVE InterRun(_, _, _, _)
InterRun(rest, last, acc, cfg) ==      \* last = previous feature; the dictionary's seqid always equals last.seqid
  IF rest = <<>> THEN acc
  ELSE LET f == Head(rest) IN
       IF f.seqid # last.seqid THEN InterRun(Tail(rest), f, acc, cfg)
       ELSE LET s == last.end + 1  e == f.start - 1 IN
            InterRun(Tail(rest), f, IF s > e THEN acc ELSE Append(acc, [Gap(last, f, cfg) EXCEPT !.seqid = last.seqid]), cfg)
Inter_Alg(fs, cfg) == IF fs = <<>> THEN <<>> ELSE InterRun(Tail(fs), Head(fs), <<>>, cfg)
\* N features on one seqid without touching/overlapping neighbours give N - 1 gaps
NMinusOne(fs, cfg) == ((\A i \in 1..(Len(fs) - 1) : fs[i].seqid = fs[i + 1].seqid /\ fs[i].end + 1 < fs[i + 1].start) /\ fs # <<>>)
                        => Len(Inter_Decl(fs, cfg)) = Len(fs) - 1

\* children of p of a type, ordered by start (ties in rowid order)
KidsByStart(db, p, level, ftype) ==
  LET ks == {i \in 1..Len(db.feats) : db.feats[i].ftype = ftype /\ <<p, db.feats[i].id, level>> \in db.rels}
      sq == [k \in 1..Cardinality(ks) |-> db.feats[CHOOSE i \in ks : Cardinality({j \in ks : j < i}) = k - 1]]
  IN StableSortIdx(sq, LAMBDA i, j : sq[i].start < sq[j].start)
\* transcripts in the order create_introns visits them: level-1 children of each gene-typed feature
Transcripts(db, gtype) == FlatSeq([g \in 1..Len(db.feats) |->
    IF db.feats[g].ftype # gtype THEN <<>>
    ELSE LET ks == {i \in 1..Len(db.feats) : <<db.feats[g].id, db.feats[i].id, 1>> \in db.rels} IN
         [k \in 1..Cardinality(ks) |-> db.feats[CHOOSE i \in ks : Cardinality({j \in ks : j < i}) = k - 1]]])
IntronCfg(numeric, mergeA) == [newtype |-> T_intron, mergeAttrs |-> mergeA, numeric |-> numeric, update |-> <<>>]
Introns_Decl(db, gtype, etype, numeric, mergeA) ==
  FlatSeq([t \in 1..Len(Transcripts(db, gtype)) |-> Inter_Decl(KidsByStart(db, Transcripts(db, gtype)[t].id, 1, etype), IntronCfg(numeric, mergeA))])
SiteType(side, strand) == IF strand = PLUS THEN (IF side = "left" THEN T_five ELSE T_three)
                          ELSE IF strand = MINUSS THEN (IF side = "left" THEN T_three ELSE T_five) ELSE T_splice
Site(intron, side, tstrand) ==
  LET ty == SiteType(side, tstrand) IN
  [intron EXCEPT !.ftype = ty, !.start = IF side = "left" THEN intron.start ELSE intron.end - 1,
                 !.end = IF side = "left" THEN intron.start + 1 ELSE intron.end,
                 !.attrs = AttrSet(intron.attrs, T_ID, <<ty \o <<UNDER>> \o AttrGet(intron.attrs, T_ID)[1]>>)]
Splice_Decl(db, gtype, etype, numeric) ==
  FlatSeq([s \in 1..2 |-> FlatSeq([t \in 1..Len(Transcripts(db, gtype)) |->
      LET tr == Transcripts(db, gtype)[t]
          ins == Inter_Decl(KidsByStart(db, tr.id, 1, etype), IntronCfg(numeric, TRUE))
      IN [k \in 1..Len(ins) |-> Site(ins[k], IF s = 1 THEN "left" ELSE "right", tr.strand)]])])

(***************************************************************************)
(* C16 merge criteria (merge_criteria.py): acc = accumulated feature       *)
(***************************************************************************)
Crit(name, th, acc, cur) ==
  CASE name = "seqid" -> cur.seqid = acc.seqid
    [] name = "strand" -> acc.strand = cur.strand
    [] name = "feature_type" -> acc.ftype = cur.ftype
    [] name = "exact_coordinates_only" -> cur.start = acc.start /\ cur.end = acc.end
    [] name = "overlap_end_inclusive" -> acc.start <= cur.start /\ cur.start <= acc.end + 1
    [] name = "overlap_start_inclusive" -> acc.start <= cur.end + 1 /\ cur.end + 1 <= acc.end + 1
    [] name = "overlap_any_inclusive" -> (acc.start <= cur.start /\ cur.start <= acc.end + 1) \/ (acc.start <= cur.end + 1 /\ cur.end + 1 <= acc.end + 1)
    [] name = "overlap_end_threshold" -> acc.start <= cur.start /\ cur.start <= acc.end + th
    [] name = "overlap_start_threshold" -> acc.start - th <= cur.end + 1 /\ cur.end + 1 <= acc.end + 1
    [] name = "overlap_any_threshold" -> (acc.start - th <= cur.end + 1 /\ cur.end + 1 <= acc.end + 1) \/ (acc.start <= cur.start /\ cur.start <= acc.end + th)
AllCrit(crits, acc, cur) == \A i \in 1..Len(crits) : Crit(crits[i].name, crits[i].th, acc, cur)
DefaultCrits == <<[name |-> "seqid", th |-> 0], [name |-> "overlap_end_inclusive", th |-> 0], [name |-> "strand", th |-> 0], [name |-> "feature_type", th |-> 0]>>

\* the accumulated feature after absorbing cur
SeqidParts(s) == Split(s, <<COMMA>>)
Absorb(acc, cur) ==
  [acc EXCEPT !.seqid = IF Contains(SeqidParts(acc.seqid), cur.seqid) THEN acc.seqid ELSE acc.seqid \o <<COMMA>> \o cur.seqid,
              !.strand = IF cur.strand # acc.strand THEN DOTT ELSE acc.strand,
              !.frame = IF cur.frame # acc.frame THEN DOTT ELSE acc.frame,
              !.ftype = IF cur.ftype # acc.ftype THEN T_seqfeat ELSE acc.ftype,
              !.start = IF cur.start < acc.start THEN cur.start ELSE acc.start,
              !.end = IF cur.end > acc.end THEN cur.end ELSE acc.end]
\* the fresh copy made when a run gets its second member: new id from the live counter of its featuretype
FreshCopy(seed, ctr) == [seed EXCEPT !.id = AutoId(ctr, seed.ftype), !.attrs = <<<<T_ID, <<AutoId(ctr, seed.ftype)>>>>>>, !.extra = <<>>]

(* state of the single pass: [cur (accumulated feature or "none"), kids (indices of run members), out, ctr, unchecked]
   out items: [f, kids]   kids = <<>> for features yielded unchanged                                                  *)
MergeStep(st, f, i, crits) ==
  IF st.none
  THEN IF AllCrit(crits, f, f) THEN [st EXCEPT !.none = FALSE, !.cur = f, !.kids = <<i>>, !.seed = i]
       ELSE [st EXCEPT !.out = Append(@, [f |-> f, kids |-> <<>>])]
  ELSE IF st.kids = <<>> /\ ~AllCrit(crits, st.cur, st.cur)
       \* the current feature ended the previous run, is checked as a seed only now, and fails: yielded alone
       THEN [st EXCEPT !.out = Append(@, [f |-> st.cur, kids |-> <<>>]), !.cur = f, !.seed = i]
       ELSE LET kids1 == IF st.kids = <<>> THEN <<st.seed>> ELSE st.kids IN
            IF AllCrit(crits, st.cur, f)
            THEN LET fresh == Len(kids1) = 1
                     base == IF fresh THEN FreshCopy(st.cur, st.ctr) ELSE st.cur
                 IN [st EXCEPT !.cur = Absorb(base, f), !.kids = Append(kids1, i), !.ctr = IF fresh THEN CtrInc(@, st.cur.ftype) ELSE @]
            ELSE [st EXCEPT !.out = Append(@, [f |-> st.cur, kids |-> IF Len(kids1) > 1 THEN kids1 ELSE <<>>]), !.cur = f, !.seed = i, !.kids = <<>>]
RECURSIVE MergeFold(_, _, _, _)
MergeFold(st, fs, i, crits) == IF i > Len(fs) THEN st ELSE MergeFold(MergeStep(st, fs[i], i, crits), fs, i + 1, crits)
Merge_Alg2(fs, crits, ctr) ==
  LET st == MergeFold([none |-> TRUE, cur |-> 0, kids |-> <<>>, out |-> <<>>, ctr |-> ctr, seed |-> 0], fs, 1, crits) IN
  [out |-> IF st.none THEN st.out ELSE Append(st.out, [f |-> st.cur, kids |-> IF Len(st.kids) > 1 THEN st.kids ELSE <<>>]), ctr |-> st.ctr]

(* declarative reading of C16 on the outputs of a merge over fs *)
Covered(out) == FlatSeq([k \in 1..Len(out) |-> out[k].kids])
Min2Set(S) == CHOOSE x \in S : \A y \in S : x <= y
Max2Set(S) == CHOOSE x \in S : \A y \in S : x >= y
PartitionOK(fs, out) ==
  \* every input is a child of exactly one merged output, or is yielded unchanged with no children (in order)
  /\ \A i \in 1..Len(fs) : Count(Covered(out), i) <= 1
  /\ SelectSeq([k \in 1..Len(out) |-> IF out[k].kids = <<>> THEN <<out[k].f>> ELSE <<>>], LAMBDA x : x # <<>>)
       = SelectSeq([i \in 1..Len(fs) |-> IF Count(Covered(out), i) = 0 THEN <<fs[i]>> ELSE <<>>], LAMBDA x : x # <<>>)
  /\ \A k \in 1..Len(out) : out[k].kids # <<>> =>
        /\ Len(out[k].kids) >= 2
        /\ \A j \in 1..(Len(out[k].kids) - 1) : out[k].kids[j + 1] = out[k].kids[j] + 1            \* a consecutive run
        /\ out[k].f.start = Min2Set({fs[i].start : i \in ToSet(out[k].kids)})
        /\ out[k].f.end = Max2Set({fs[i].end : i \in ToSet(out[k].kids)})
  \* merged outputs carry distinct ids
  /\ NoDup(SelectSeq([k \in 1..Len(out) |-> IF out[k].kids # <<>> THEN out[k].f.id ELSE <<>>], LAMBDA x : x # <<>>))
\* with the default criteria, on input grouped by (seqid, type, strand) and sorted by start, the extents are the
\* connected components of "overlapping or adjacent", computed independently as a closure
Linked(a, b) == a.seqid = b.seqid /\ a.strand = b.strand /\ a.ftype = b.ftype /\ a.start <= b.end + 1 /\ b.start <= a.end + 1
RECURSIVE Reach(_, _)
Reach(fs, S) == LET T == S \cup {j \in 1..Len(fs) : \E i \in S : Linked(fs[i], fs[j])} IN IF T = S THEN S ELSE Reach(fs, T)
Components(fs) == {Reach(fs, {i}) : i \in 1..Len(fs)}
Extents(fs, comps) == {<<fs[CHOOSE i \in c : TRUE].seqid, Min2Set({fs[i].start : i \in c}), Max2Set({fs[i].end : i \in c})>> : c \in comps}
OutExtents(out) == {<<out[k].f.seqid, out[k].f.start, out[k].f.end>> : k \in 1..Len(out)}
UnionLemma(fs, out) == OutExtents(out) = Extents(fs, Components(fs))
SortedGrouped(fs) == \A i \in 1..(Len(fs) - 1) :
   LET a == fs[i]  b == fs[i + 1] IN
   LexLess(a.seqid, b.seqid) \/ (a.seqid = b.seqid /\ (LexLess(a.ftype, b.ftype) \/ (a.ftype = b.ftype /\ (LexLess(a.strand, b.strand) \/ (a.strand = b.strand /\ a.start <= b.start)))))

LenOf(f) == f.end - f.start + 1
ChildrenBp_Decl(kids, merge) ==     \* kids sorted by start
  IF ~merge THEN SumSeq([i \in 1..Len(kids) |-> LenOf(kids[i])])
  ELSE LET out == Merge_Alg2(kids, DefaultCrits, {}).out IN SumSeq([k \in 1..Len(out) |-> LenOf(out[k].f)])
\* size of the union of the intervals (independent of merge): positions covered
UnionSize(kids) == Cardinality(UNION {kids[i].start..kids[i].end : i \in 1..Len(kids)})

(***************************************************************************)
(* C18 bed12                                                               *)
(***************************************************************************)
Bed12_Alg(feature, blocks, thick, useThick, nameField, color) ==
  \* blocks / thick: children sorted by start; blocks = <<>> means "the feature itself"
  LET ex == IF blocks = <<>> THEN <<feature>> ELSE blocks
      cs == feature.start - 1
  IN IF ex[1].start # feature.start \/ ex[Len(ex)].end # feature.end THEN [raise |-> TRUE]
     ELSE [raise |-> FALSE,
           fields |-> <<feature.seqid, IntStr(cs), IntStr(feature.end),
                        IF AttrHas(feature.attrs, nameField) /\ AttrGet(feature.attrs, nameField) # <<>> THEN AttrGet(feature.attrs, nameField)[1] ELSE DOTT,
                        IF feature.score = DOTT THEN <<48>> ELSE feature.score, feature.strand,
                        IntStr(IF thick = <<>> THEN feature.start ELSE IF useThick THEN thick[1].start - 1 ELSE thick[1].end),
                        IntStr(IF thick = <<>> THEN feature.end ELSE IF useThick THEN thick[Len(thick)].end ELSE thick[Len(thick)].start - 1),
                        color, IntStr(Len(ex)),
                        Join([i \in 1..Len(ex) |-> IntStr(LenOf(ex[i]))], <<COMMA>>),
                        Join([i \in 1..Len(ex) |-> IntStr(ex[i].start - 1 - cs)], <<COMMA>>)>>]
\* declarative constraints of C18 on the twelve fields
Bed12_Decl(feature, blocks, r) ==
  LET ex == IF blocks = <<>> THEN <<feature>> ELSE blocks
      spans == ex[1].start = feature.start /\ ex[Len(ex)].end = feature.end
  IN IF ~spans THEN r.raise
     ELSE /\ ~r.raise /\ Len(r.fields) = 12
          /\ r.fields[2] = IntStr(feature.start - 1) /\ r.fields[3] = IntStr(feature.end)
          /\ r.fields[10] = IntStr(Len(ex))
          /\ r.fields[11] = Join([i \in 1..Len(ex) |-> IntStr(ex[i].end - ex[i].start + 1)], <<COMMA>>)
          /\ r.fields[12] = Join([i \in 1..Len(ex) |-> IntStr(ex[i].start - feature.start)], <<COMMA>>)
          /\ ex[1].start - feature.start = 0
          /\ (ex[Len(ex)].start - feature.start) + (ex[Len(ex)].end - ex[Len(ex)].start + 1) = feature.end - (feature.start - 1)

\* sequence: bases start..end (1-based inclusive), reverse-complemented on the minus strand
\* complement of the nucleotide codes incl. the IUPAC ambiguity codes (R<->Y, K<->M, D<->H, V<->B; W, S, N, X are their own complement), case kept
Comp(c) == CASE c = 65 -> 84 [] c = 67 -> 71 [] c = 84 -> 65 [] c = 71 -> 67 [] c = 97 -> 116 [] c = 99 -> 103 [] c = 116 -> 97 [] c = 103 -> 99 [] c = 89 -> 82 [] c = 82 -> 89 [] c = 75 -> 77 [] c = 77 -> 75 [] c = 68 -> 72 [] c = 86 -> 66 [] c = 72 -> 68 [] c = 66 -> 86 [] c = 121 -> 114 [] c = 114 -> 121 [] c = 107 -> 109 [] c = 109 -> 107 [] c = 100 -> 104 [] c = 118 -> 98 [] c = 104 -> 100 [] c = 98 -> 118 [] OTHER -> c
Reverse(s) == [i \in 1..Len(s) |-> s[Len(s) + 1 - i]]
SeqOf(ref, start, end, strand, useStrand) ==
  LET sub == SubSeq(ref, start, end) IN
  IF useStrand /\ strand = MINUSS THEN [i \in 1..Len(sub) |-> Comp(Reverse(sub)[i])] ELSE sub
=============================================================================
