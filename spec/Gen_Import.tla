------------------------------ MODULE Gen_Import ------------------------------
(* The import pipeline on recorded files.  IOEnv.SEED_FILE = [wordna, files |-> <<[lines, cl, d, rows]...>>]:
   lines = the feature lines of a file (code points), cl = checklines; for generated files d and rows
   (dialect and per-line attribute rows) are given as well and the file's text is produced by the specification.
   Prints per file: the dialect the file gets, the stored features, their printed form, and - for generated
   files - whether the file is Consistent.                                                                     *)
EXTENDS ImportModel, Json, IOUtils
Data == JsonDeserialize(IOEnv.SEED_FILE)
WordNAFromFile == ToSet(Data.wordna)
Files == Data.files
VARIABLES i, done
Init == i \in 1..Len(Files) /\ done = FALSE
Next == /\ ~done /\ done' = TRUE /\ i' = i
        /\ LET f == Files[i]
               gen == f.generated
               lines == IF gen THEN FileLines(f.d, f.rows) ELSE f.lines
               r == ImportText(lines, f.cl)
           IN PrintT(ToJson([k |-> i, lines |-> lines, cl |-> f.cl, consistent |-> (IF gen THEN Consistent(f.d, f.rows, f.cl) ELSE FALSE), generated |-> gen,
                             st |-> r.st, dialect |-> r.db.dialect, feats |-> r.db.feats,
                             printed |-> PrintAll(r.db, TRUE, FALSE), printedSorted |-> PrintAll(r.db, TRUE, TRUE)]))
=============================================================================
