------------------------------ MODULE MC_Handle ------------------------------
(* Bounded instance of Handle: a universe of four features
     a  gene  chr1  10..300000        b  exon  chr1  15..18  (Parent=a)
     c  exon  chr1  140000..140010 (Parent=a, another 128 kb bin)      d  exon  chr2  15..18 (initially absent: a new seqid)
   and every history of <= Depth steps over
     del x | add x | move x (shift by 128 kb or 1 Mb: the feature changes its bin; written back with merge_strategy='replace') | reopen.
   After every step the answers of the statement are recorded (Answers).  Invariant Coherent compares the answers a handle WITH a
   memory (Remembers = TRUE: first answer per question is kept) would give with Answers(db): it must fail, and hold with Remembers = FALSE. *)
EXTENDS Handle, Json
CONSTANT Depth, Remembers, Gen
KA == <<97>>  KB == <<98>>  KC == <<99>>  KD == <<100>>
Chr1 == <<99, 104, 114, 49>>  Chr2 == <<99, 104, 114, 50>>
Universe == <<KA, KB, KC, KD>>
Base(x) == CASE x = KA -> [MkF(KA, T_gene, <<>>, <<>>) EXCEPT !.start = 10, !.end = 300000]
             [] x = KB -> [MkF(KB, T_exon, <<KA>>, <<>>) EXCEPT !.start = 15, !.end = 18]
             [] x = KC -> [MkF(KC, T_exon, <<KA>>, <<>>) EXCEPT !.start = 140000, !.end = 140010]
             [] x = KD -> [MkF(KD, T_exon, <<>>, <<>>) EXCEPT !.seqid = Chr2, !.start = 15, !.end = 18]
Shifts == {131072, 1048576}
Types == <<T_gene, T_exon, <<109, 82, 78, 65>>>>
Queries == << Query(Chr1, 1, 100, FALSE), Query(Chr1, 1, 100, TRUE), Query(Chr1, 131000, 1400000, TRUE), Query(Chr1, 271000, 272000, FALSE),
              Query(Chr1, 1188000, 1189000, FALSE), Query(Chr2, 1, 100, TRUE), Query(Chr2, 131000, 1400000, FALSE),
              Query(Chr1, 1, 600000000, TRUE), Query(Chr1, 1, 600000000, FALSE), Query(Chr1, 262144, 262144, FALSE) >>
Ans(d) == Answers(d, Universe, Types, Queries)

VARIABLES db, ctr, h, memo
vars == <<db, ctr, h, memo>>
Start == Create(<<Base(KA), Base(KB), Base(KC)>>, <<>>, DefaultDialect, DefaultCfg)
Init == db = Start.db /\ ctr = Start.ctr /\ h = <<>> /\ memo = Ans(Start.db)
ReplaceCfg == [DefaultCfg EXCEPT !.strategy = "replace"]
\* what a remembering handle would answer: what it answered first (reopening forgets)
Remembered(d, op) == IF Remembers /\ op # "reopen" THEN memo ELSE Ans(d)
Step(op, x, feat, d, c) ==
  /\ db' = d /\ ctr' = c
  /\ memo' = IF op = "reopen" THEN Ans(d) ELSE memo
  /\ h' = Append(h, [op |-> op, x |-> x, feat |-> feat, ans |-> Ans(d), got |-> Remembered(d, op)])
Del(x) == Has(db, x) /\ Step("del", x, <<>>, Delete(db, {x}), ctr)
Add(x) == ~Has(db, x) /\ LET r == Update(db, ctr, <<Base(x)>>, DefaultCfg) IN r.st = "ok" /\ Step("add", x, <<WithId(Base(x))>>, r.db, r.ctr)
Move(x, by) == Has(db, x) /\ Get(db, x).end + by < 2000000 /\
               LET f == [Get(db, x) EXCEPT !.start = @ + by, !.end = @ + by]
                   r == Update(db, ctr, <<f>>, ReplaceCfg) IN r.st = "ok" /\ Step("move", x, <<f>>, r.db, r.ctr) /\ h'[Len(h')].feat[1].start = f.start
ReopenH == Step("reopen", <<>>, <<>>, db, Reopen(db))
Next == /\ Len(h) < Depth
        /\ \/ \E x \in {KA, KB, KC, KD} : Del(x) \/ Add(x) \/ (\E by \in Shifts : Move(x, by))
           \/ ReopenH
Spec == Init /\ [][Next]_vars
view == <<db, ctr, Len(h), IF Remembers THEN memo ELSE 0>>
Emit == (Gen /\ Len(h) = Depth) => PrintT(ToJson([init |-> <<WithId(Base(KA)), WithId(Base(KB)), WithId(Base(KC))>>, h |-> [k \in 1..Len(h) |-> [op |-> h[k].op, x |-> h[k].x, feat |-> h[k].feat, ans |-> h[k].ans]]]))
\* every recorded answer is the statement's answer for the state it was given in
Coherent == \A k \in 1..Len(h) : h[k].got = h[k].ans
\* look-ups are exact in every state: a key is found iff stored, and then with the coordinates stored NOW
LookupExact == \A k \in 1..Len(Universe) : LET l == Lookup(db, Universe[k]) IN l.found <=> Has(db, Universe[k])
\* counts add up, and the must-set of every query is inside its may-set
CountsAddUp == CountOf(db, <<>>) = Len(db.feats) /\ CountOf(db, T_gene) + CountOf(db, T_exon) = Len(db.feats)
MustInMay == \A k \in 1..Len(Queries) : RegionMust(db, Queries[k]) \subseteq RegionMay(db, Queries[k])
=============================================================================
