------------------------------- MODULE Region -------------------------------
(***************************************************************************)
(* C06 on records.  A feature is [id, seqid, s, e, strand, ftype]; a query *)
(*   [api : "region" | "limit", seqid : STRING or "" (omitted),            *)
(*    s, e : Int (0 = bound not given), within : BOOLEAN,                  *)
(*    strand : STRING or "", ftypes : set of STRING, anyType : BOOLEAN]    *)
(***************************************************************************)
EXTENDS RegionI, FiniteSets, Sequences

Restrict(f, q) == /\ (q.strand = "" \/ f.strand = q.strand)
                  /\ (q.anyType \/ f.ftype \in q.ftypes)
                  /\ (q.seqid = "" \/ f.seqid = q.seqid)

Must_Decl(f, q) == Restrict(f, q) /\ Must_I(f.s, f.e, q.s, q.e, q.within)
May_Decl(f, q)  == Restrict(f, q) /\ May_I(f.s, f.e, q.s, q.e, q.within)
Sel_Alg(f, q)   == Restrict(f, q) /\ Sel_I(f.s, f.e, q.s, q.e, q.within, q.api = "limit")

Sound(f, q)    == Sel_Alg(f, q) => May_Decl(f, q)
Complete(f, q) == Must_Decl(f, q) => Sel_Alg(f, q)

\* sets of ids, for the judge
IdsAlg(F, q)  == {f.id : f \in {g \in F : Sel_Alg(g, q)}}
IdsMust(F, q) == {f.id : f \in {g \in F : Must_Decl(g, q)}}
IdsMay(F, q)  == {f.id : f \in {g \in F : May_Decl(g, q)}}
=============================================================================
