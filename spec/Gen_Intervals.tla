---------------------------- MODULE Gen_Intervals ----------------------------
(* Interval operations on recorded gene models.  IOEnv.SEED_FILE = [models |-> <<[feats, numeric, mergeA, exclude]...>>].
   For each model the database is built with the import model (GffDB!Create) and the specification prints what
   create_introns, create_splice_sites, children_bp, bed12 and merge_all must give.                                    *)
EXTENDS Intervals, Json, IOUtils
Data == JsonDeserialize(IOEnv.SEED_FILE)
\* exon numbers 0..12 are the only numeric attribute values of the generated gene models
\* (a substituted constant is re-evaluated at every use, so it must not read the seed file)
NumFromFile == {<<Digits(n), n * 1000>> : n \in 0..12}
T_mRNA == <<109, 82, 78, 65>>
T_CDSx == <<67, 68, 83>>
FView(f) == [seqid |-> f.seqid, start |-> f.start, end |-> f.end, strand |-> f.strand, ftype |-> f.ftype, attrs |-> f.attrs]
DBOf(m) == Create(m.feats, <<>>, DefaultDialect, DefaultCfg).db

\* children (any level) of a type, ordered by start
KidsAnyLevel(db, p, ftype) ==
  LET ks == {i \in 1..Len(db.feats) : db.feats[i].ftype = ftype /\ \E l \in 1..2 : <<p, db.feats[i].id, l>> \in db.rels}
      sq == [k \in 1..Cardinality(ks) |-> db.feats[CHOOSE i \in ks : Cardinality({j \in ks : j < i}) = k - 1]]
  IN StableSortIdx(sq, LAMBDA i, j : sq[i].start < sq[j].start)

\* merge_all: features ordered by (seqid, featuretype, strand, start), default criteria; every multi-member run is stored
\* as a new feature; its members get it as level-1 parent and Parent attribute, or are deleted
OrderLess(a, b) == LexLess(a.seqid, b.seqid) \/ (a.seqid = b.seqid /\ (LexLess(a.ftype, b.ftype) \/ (a.ftype = b.ftype /\
                      (LexLess(a.strand, b.strand) \/ (a.strand = b.strand /\ a.start < b.start)))))
MergeOrder(db) == StableSortIdx(db.feats, LAMBDA i, j : OrderLess(db.feats[i], db.feats[j]))
RECURSIVE RelateAll(_, _, _)
RelateAll(db, p, kids) == IF kids = <<>> THEN db ELSE RelateAll(AddRel(db, p, Head(kids), 1, TRUE).db, p, Tail(kids))
RECURSIVE ApplyRuns(_, _, _, _)
ApplyRuns(db, outs, ordered, exclude) ==
  IF outs = <<>> THEN db
  ELSE LET o == Head(outs) IN
       IF o.kids = <<>> THEN ApplyRuns(db, Tail(outs), ordered, exclude)
       ELSE LET db1 == AppendFeat(db, o.f)
                kidIds == [j \in 1..Len(o.kids) |-> ordered[o.kids[j]].id]
                db2 == IF exclude THEN Delete(db1, ToSet(kidIds)) ELSE RelateAll(db1, o.f.id, kidIds)
            IN ApplyRuns(db2, Tail(outs), ordered, exclude)
MergeAll(db, exclude) == LET ord == MergeOrder(db)  r == Merge_Alg2(ord, DefaultCrits, db.ctrP) IN
                         [db |-> ApplyRuns(db, r.out, ord, exclude), n |-> Cardinality({k \in 1..Len(r.out) : r.out[k].kids # <<>>})]

Bed(db, t) == LET f == Get(db, t)
                  r == Bed12_Alg(f, KidsAnyLevel(db, t, T_exon), KidsAnyLevel(db, t, T_CDSx), TRUE, T_ID, <<48, 44, 48, 44, 48>>)
                  \* the same transcript asked again with other arguments: blocks = CDS, thick = exon, name from Name, a colour with blanks (stripped);
                  \* and with thin_featuretype (thick_featuretype=None): the thick fields come from the END of the first and the START of the last thin feature
                  r2 == Bed12_Alg(f, KidsAnyLevel(db, t, T_CDSx), KidsAnyLevel(db, t, T_exon), TRUE, T_Name, <<50, 53, 53, 44, 48, 44, 48>>)
                  r3 == Bed12_Alg(f, KidsAnyLevel(db, t, T_exon), KidsAnyLevel(db, t, T_exon), FALSE, T_ID, <<48, 44, 48, 44, 48>>)
              IN [id |-> t, r |-> r, decl |-> Bed12_Decl(f, KidsAnyLevel(db, t, T_exon), r),
                  r2 |-> r2, decl2 |-> Bed12_Decl(f, KidsAnyLevel(db, t, T_CDSx), r2), r3 |-> r3, decl3 |-> Bed12_Decl(f, KidsAnyLevel(db, t, T_exon), r3)]
VARIABLES i, done
Init == i \in 1..Len(Data.models) /\ done = FALSE
Next == /\ ~done /\ done' = TRUE /\ i' = i
        /\ LET m == Data.models[i]  db == DBOf(m)  ma == MergeAll(db, m.exclude) IN
           PrintT(ToJson([k |-> i,
                          introns |-> [x \in 1..Len(Introns_Decl(db, T_gene, T_exon, m.numeric, m.mergeA)) |-> FView(Introns_Decl(db, T_gene, T_exon, m.numeric, m.mergeA)[x])],
                          splice |-> [x \in 1..Len(Splice_Decl(db, T_gene, T_exon, m.numeric)) |-> FView(Splice_Decl(db, T_gene, T_exon, m.numeric)[x])],
                          bp |-> {[id |-> db.feats[x].id, plain |-> ChildrenBp_Decl(KidsAnyLevel(db, db.feats[x].id, T_exon), FALSE),
                                   merged |-> ChildrenBp_Decl(KidsAnyLevel(db, db.feats[x].id, T_exon), TRUE),
                                   union |-> UnionSize(KidsAnyLevel(db, db.feats[x].id, T_exon))] : x \in 1..Len(db.feats)},
                          bed |-> {Bed(db, db.feats[x].id) : x \in {y \in 1..Len(db.feats) : db.feats[y].ftype = T_mRNA}},
                          mergeall |-> [n |-> ma.n, db |-> Proj(ma.db)],
                          seqs |-> [q \in 1..Len(m.queries) |-> SeqOf(m.ref, m.queries[q].s, m.queries[q].e, m.queries[q].strand, m.queries[q].use)],
                          lens |-> [x \in 1..Len(db.feats) |-> LenOf(db.feats[x])]]))
=============================================================================
