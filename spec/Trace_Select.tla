---------------------------- MODULE Trace_Select ----------------------------
(* Judge for recorded all_features / features_of_type / count / featuretypes / seqids calls.
   IOEnv.TRACE_FILE = [dbs |-> <<features...>>, events |-> <<[db, kind, q, ids | n | vals]>>]   *)
EXTENDS Select, TLC, Json, IOUtils
Data == JsonDeserialize(IOEnv.TRACE_FILE)
DBs == [k \in 1..Len(Data.dbs) |-> ToSet(Data.dbs[k])]
ById(F, id) == CHOOSE f \in F : f.id = id
Q(e) == [anyType |-> e.q.anyType, ftypes |-> ToSet(e.q.ftypes), strand |-> e.q.strand, order |-> e.q.order, reverse |-> e.q.reverse]
Verdict(e) ==
  LET F == DBs[e.db] IN
  CASE e.kind = "select" ->
         IF ~(ToSet(e.ids) \subseteq {f.id : f \in F}) THEN "phantom"
         ELSE LET res == [i \in 1..Len(e.ids) |-> ById(F, e.ids[i])]  q == Q(e) IN
              IF ~NoDup(e.ids) THEN "dup"
              ELSE IF ToSet(res) # Matching(F, q) THEN "wrong_set"
              ELSE IF ~Select_Decl(F, q, res) THEN "order"
              ELSE IF ~Select_Alg(F, q, res) THEN "drift"
              ELSE "ok"
    [] e.kind = "count" -> IF e.n = Count_Decl(F, e.t) THEN "ok" ELSE "count"
    [] e.kind = "featuretypes" -> IF NoDup(e.vals) /\ ToSet(e.vals) = FeatureTypes_Decl(F) THEN "ok" ELSE "featuretypes"
    [] e.kind = "seqids" -> IF NoDup(e.vals) /\ ToSet(e.vals) = Seqids_Decl(F) THEN "ok" ELSE "seqids"
VARIABLES i, done
Init == i \in 1..((Len(Data.events) + 15) \div 16) /\ done = FALSE
Next == /\ ~done /\ done' = TRUE /\ i' = i
        /\ \A j \in ((i - 1) * 16 + 1)..Min2(i * 16, Len(Data.events)) :
             LET v == Verdict(Data.events[j]) IN v = "ok" \/ PrintT(ToJson([reject |-> j, clause |-> v]))
=============================================================================
