------------------------------ MODULE RegionI ------------------------------
(***************************************************************************)
(* Integer core of C06 (kept free of records so that Apalache can type it).*)
(* Feature interval fs..fe, query bounds qs, qe (0 = bound not given),     *)
(* w = completely_within, lim = the limit= form of helpers.make_query      *)
(* (otherwise interface.FeatureDB.region).                                 *)
(*   *_Decl : the statement of C06;  *_Alg : the SQL the code builds,      *)
(*   including the bin pre-filter, its guards and the 3-way OR of #129.    *)
(***************************************************************************)
EXTENDS Bins

FBin(fs, fe) == OneBin_Alg(fs, fe, "gff")      \* C12: the stored bin

\* ------------------------------ declarative ------------------------------
Both_Decl(fs, fe, qs, qe, w) == IF w THEN qs <= fs /\ fe <= qe ELSE fs <= qe /\ fe >= qs
\* one bound given: everything strictly beyond the bound MUST be returned, nothing outside the
\* half-line MAY be (features touching the bound exactly are left open by the statement)
OneMust(fs, fe, qs, qe, w) == IF qs # 0 THEN (IF w THEN fs > qs ELSE fe > qs) ELSE (IF w THEN fe < qe ELSE fs < qe)
OneMay(fs, fe, qs, qe, w)  == IF qs # 0 THEN (IF w THEN fs >= qs ELSE fe >= qs) ELSE (IF w THEN fe <= qe ELSE fs <= qe)
Must_I(fs, fe, qs, qe, w) == IF qs # 0 /\ qe # 0 THEN Both_Decl(fs, fe, qs, qe, w)
                             ELSE IF qs = 0 /\ qe = 0 THEN TRUE ELSE OneMust(fs, fe, qs, qe, w)
May_I(fs, fe, qs, qe, w)  == IF qs # 0 /\ qe # 0 THEN Both_Decl(fs, fe, qs, qe, w)
                             ELSE IF qs = 0 /\ qe = 0 THEN TRUE ELSE OneMay(fs, fe, qs, qe, w)

\* ------------------------------ algorithmic ------------------------------
\* the bin pre-filter: only when the bin set is computable (both bounds below 2^29) and small
BinSetSize(s, e) == 1 + (Shr(e, 0) - Shr(s - 1, 0) + 1) + (Shr(e, 1) - Shr(s - 1, 1) + 1) + (Shr(e, 2) - Shr(s - 1, 2) + 1)
                      + (Shr(e, 3) - Shr(s - 1, 3) + 1)      \* level 4 is bin 1 itself
BinClauseUsable(s, e) == s < MAXC /\ e < MAXC /\ BinSetSize(s, e) < 900
BinOK(fs, fe, s, e) == InSet_Alg(FBin(fs, fe), s, e, "gff")

\* interface.FeatureDB.region
Region_I(fs, fe, qs, qe, w) ==
  IF w
  THEN /\ (qs # 0 => fs >= qs)
       /\ (qe # 0 => fe <= qe)
       /\ ((qs # 0 /\ qe # 0 /\ BinClauseUsable(qs, qe)) => BinOK(fs, fe, qs, qe))
  ELSE \* bounds are swapped in the code: region_start = e, region_end = s
       IF qs # 0 /\ qe # 0
       THEN \/ (qe <= fs /\ qs >= fs)
            \/ (qe >= fs /\ qs <= fe)
            \/ (qe <= fe /\ qs >= fe)
       ELSE /\ (qe # 0 => fs < qe)
            /\ (qs # 0 => fe > qs)

\* helpers.make_query(limit=...)
Limit_I(fs, fe, qs, qe, w) ==
  /\ IF w THEN fs >= qs /\ fe <= qe ELSE fs <= qe /\ fe >= qs
  /\ (BinClauseUsable(qs, qe) => BinOK(fs, fe, qs, qe))

Sel_I(fs, fe, qs, qe, w, lim) == IF lim THEN Limit_I(fs, fe, qs, qe, w) ELSE Region_I(fs, fe, qs, qe, w)
Sound_I(fs, fe, qs, qe, w, lim)    == Sel_I(fs, fe, qs, qe, w, lim) => May_I(fs, fe, qs, qe, w)
Complete_I(fs, fe, qs, qe, w, lim) == Must_I(fs, fe, qs, qe, w) => Sel_I(fs, fe, qs, qe, w, lim)
=============================================================================
