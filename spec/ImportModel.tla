----------------------------- MODULE ImportModel -----------------------------
(***************************************************************************)
(* C01: the whole import pipeline as a composition of the other modules:   *)
(*   text lines --(window, per-line Infer, Choose)--> dialect D            *)
(*              --(ParseWith D per line)--> features                       *)
(*              --(GffDB!Create)--> database --(all_features, Render D)--> text *)
(* A file line is a full GFF line (code points).  Only feature lines here; *)
(* directives/comments are C14's subject.                                  *)
(***************************************************************************)
EXTENDS Dialect, GffDB

FieldsOf(line) == Split(RStripChars(line, {NL, CR}), <<TAB>>)
AttrText(line) == LET f == FieldsOf(line) IN IF Len(f) >= 9 THEN f[9] ELSE <<>>
\* the window votes with per-line inference
WindowItems(lines, checklines) == LET w == Window(lines, checklines) IN
   [i \in 1..Len(w) |-> LET r == Infer(AttrText(w[i])) IN [attrs |-> r.attrs, d |-> r.d]]
FileDialect(lines, checklines) == Choose_Alg(WindowItems(lines, checklines))

RECURSIVE ToNat(_, _)
ToNat(t, acc) == IF t = <<>> THEN acc ELSE ToNat(Tail(t), acc * 10 + (Head(t) - 48))
Coord(t) == IF t = <<>> \/ t = <<DOT>> THEN NoCoord ELSE ToNat(t, 0)
\* one line parsed with the file's dialect, as the importer's feature record (no id yet)
ParseLine(line, D) ==
  LET f == FromLine(line, D, TRUE) IN
  [seqid |-> f.cols[1], source |-> f.cols[2], ftype |-> f.cols[3], start |-> Coord(f.cols[4]), end |-> Coord(f.cols[5]),
   score |-> f.cols[6], strand |-> f.cols[7], frame |-> f.cols[8], attrs |-> f.attrs, extra |-> f.extra]

ImportCfg(D) ==
  IF D.fmt = "gtf"
  THEN [DefaultCfg EXCEPT !.importer = "gtf", !.strategy = "create_unique",
                          !.idspec = [kind |-> "dict", map |-> <<<<T_gene, <<[t |-> "attr", k |-> T_gene_id]>>>>, <<T_transcript, <<[t |-> "attr", k |-> T_transcript_id]>>>>>>]]
  ELSE [DefaultCfg EXCEPT !.strategy = "create_unique"]
ImportText(lines, checklines) ==
  LET D == FileDialect(lines, checklines) IN
  Create([i \in 1..Len(lines) |-> ParseLine(lines[i], D)], <<>>, D, ImportCfg(D))

\* what iterating the database prints (keep_order, optionally sort_attribute_values)
PrintFeature(f, D, keep, sortv) == ToLine([cols |-> ColsOf(f), attrs |-> f.attrs, extra |-> f.extra, d |-> D], keep, sortv)
PrintAll(db, keep, sortv) == [i \in 1..Len(db.feats) |-> PrintFeature(db.feats[i], db.dialect, keep, sortv)]

(***************************************************************************)
(* "written in one consistent dialect": a file is a dialect d, per line a  *)
(* column/extra shape n_i and attributes a_i; its text is LineOf(n_i,a_i,d)*)
(***************************************************************************)
FileLines(d, rows) == [i \in 1..Len(rows) |-> LineOf(rows[i].n, rows[i].a, [d EXCEPT !.order = AttrKeys(rows[i].a)])]
\* what the whole file exhibits of d (dimensions no line shows fall back to the default)
RowItems(rows, d) == [i \in 1..Len(rows) |-> IF rows[i].a = <<>> THEN <<>> ELSE ItemStrs(rows[i].a, d)]
FileObservable(d, rows) ==
  LET its == RowItems(rows, d)
      anyVal == \E i \in 1..Len(rows) : \E j \in 1..Len(its[i]) : its[i][j] # <<>>
      anyAttr == \E i \in 1..Len(rows) : rows[i].a # <<>>
  IN IF ~anyAttr THEN [DefaultDialect EXCEPT !.order = <<>>]
     ELSE [lead |-> FALSE, trail |-> d.trail, quoted |-> d.quoted /\ (anyVal \/ d.fmt = "gtf"),
           fsep |-> IF \E i \in 1..Len(rows) : Len(its[i]) >= 2 THEN d.fsep ELSE <<SEMI>>,
           kvsep |-> IF d.kvsep = <<EQ>> /\ ~anyVal THEN <<SP>> ELSE d.kvsep, mvsep |-> <<COMMA>>, fmt |-> d.fmt,
           rep |-> d.rep /\ \E i \in 1..Len(rows) : \E j \in 1..Len(rows[i].a) : Len(rows[i].a[j][2]) >= 2, order |-> <<>>]
\* each line's keys follow the single order the file gets (first-seen order of the window, later keys last, stable)
OrderOK(a, D) == LET its == Expand(a, D.rep) IN
   \A i \in 1..(Len(its) - 1) : OrderIndex(D.order, its[i][1]) <= OrderIndex(D.order, its[i + 1][1])
Consistent(d, rows, checklines) ==
  LET lines == FileLines(d, rows)  D == FileDialect(lines, checklines) IN
  /\ \A i \in 1..Len(rows) : InG(rows[i].a, d)
  /\ [D EXCEPT !.order = <<>>] = FileObservable(d, rows)          \* the window exhibits (and out-votes) every dimension the file uses
  /\ \A i \in 1..Len(rows) : OrderOK(rows[i].a, D)
=============================================================================
