------------------------------ MODULE Gen_Merge ------------------------------
(* merge_attributes on recorded inputs: IOEnv.SEED_FILE = [num |-> <<<<text, 1000*value>>...>>, pairs |-> <<[a1, a2, numeric]...>>];
   prints the declarative result for each pair (and checks the algorithmic layer against it).                                     *)
EXTENDS AttrStore, TLC, Json, IOUtils
Data == JsonDeserialize(IOEnv.SEED_FILE)
NumFromFile == {<<Data.num[i][1], Data.num[i][2]>> : i \in 1..Len(Data.num)}
VARIABLES i, done
Init == i \in 1..Len(Data.pairs) /\ done = FALSE
Next == /\ ~done /\ done' = TRUE /\ i' = i
        /\ LET p == Data.pairs[i] IN
           PrintT(ToJson([k |-> i, exp |-> Merge_Decl(p.a1, p.a2, p.numeric), agree |-> (Merge_Alg(p.a1, p.a2, p.numeric) = Merge_Decl(p.a1, p.a2, p.numeric))]))
=============================================================================
