-------------------------------- MODULE Txn --------------------------------
(***************************************************************************)
(* Growth beyond the listed properties (G02): the VISIBILITY of writes made *)
(* through one FeatureDB handle - what the handle itself reads ("view"),    *)
(* what a second connection / a reopening reads ("disk"), and whether the   *)
(* handle's sqlite3 connection is inside a transaction ("open").            *)
(*                                                                          *)
(* One action per public call, taken at the call's return or raise:         *)
(*   add_relation(p, c, level, parent_func, child_func)                     *)
(*       looks both features up (FeatureNotFoundError before any write),    *)
(*       INSERTs the relation (IntegrityError on a stored triple - the      *)
(*       implicit transaction is open from then on), runs parent_func and   *)
(*       rewrites the parent's row, runs child_func and rewrites the        *)
(*       child's row, commits.  A func that raises, or that returns None    *)
(*       (as the example in the method's own docstring does), ends the call *)
(*       BEFORE the commit: the writes made so far stay pending.            *)
(*   delete(id)          DELETEs the feature and its relations, commits -   *)
(*                       and thereby also commits whatever was pending.     *)
(*   update([])          returns at once, no commit.                        *)
(*   update([new])       works through a SECOND connection (the creator's): *)
(*                       refused with "database is locked" while the handle *)
(*                       is inside a transaction; otherwise committed.      *)
(*                       It also recomputes the second-level relations from *)
(*                       ALL first-level ones (Compose2), manual ones too.  *)
(*   reopen              closing the handle rolls the pending writes back.  *)
(*                                                                          *)
(* Declarative layer (what a user may rely on, checked by TLC on the        *)
(* algorithmic layer and judged on recorded histories of the real code):    *)
(*   Coherent      outside a transaction the handle and the file agree      *)
(*   DurableOnOk   a call that returns normally leaves no transaction open  *)
(*                 and the file equal to the handle's view                  *)
(*   FailKeepsDisk a call that raises does not change the file              *)
(*   ReopenIsDisk  after reopening, the view is the file                    *)
(*   ViewMonotone  a pending write is visible to the handle at once         *)
(* and one that does NOT hold and is recorded under a name:                 *)
(*   NoLateCommit  "what a failed call wrote is never made durable" -       *)
(*                 refuted: delete() after a half-done add_relation commits *)
(*                 the relation (Dev_LateCommit is reachable).              *)
(***************************************************************************)
EXTENDS Naturals, Sequences, FiniteSets, TLC
CONSTANTS Ids,          \* feature ids of the alphabet
          Start,        \* ids stored at the beginning
          Fresh,        \* ids update([new]) may add
          FuncPairs,    \* <<parent_func, child_func>> kinds: "none" | "ok" | "raise" | "retnone"
          MaxMark
VARIABLES disk, view, open, last, tainted
vars == <<disk, view, open, last, tainted>>
Rel == Ids \X Ids \X {1, 2}
\* update() recomputes the second level from EVERY first-level relation of the table, manual ones included (found by conformance, modelled under this name)
Compose2(rels) == {<<z[1][1], z[2][2], 2>> : z \in {w \in rels \X rels : w[1][3] = 1 /\ w[2][3] = 1 /\ w[1][2] = w[2][1]}}
\* a state of the tables: which ids are stored, the relation triples, and per feature how often a func rewrote its row
Tables(alive, rels, mark) == [alive |-> alive, rels |-> rels, mark |-> mark]
Init == /\ disk = Tables(Start, {}, [i \in Ids |-> 0])
        /\ view = disk /\ open = FALSE /\ tainted = {}
        /\ last = [op |-> "init", outcome |-> "ok"]
Raises(k) == k \in {"raise", "retnone"}
Bump(t, i, base) == [t EXCEPT !.mark[i] = IF base + 1 > MaxMark THEN MaxMark ELSE base + 1]
\* ---- add_relation ---------------------------------------------------------
AddRel(p, c, fp) ==
  LET pf == fp[1]  cf == fp[2]
      lbl == [op |-> "add_relation", p |-> p, c |-> c, pf |-> pf, cf |-> cf, outcome |-> ""]
      v1 == [view EXCEPT !.rels = @ \cup {<<p, c, 1>>}]
      v2 == IF pf = "ok" THEN Bump(v1, p, view.mark[p]) ELSE v1
      v3 == IF cf = "ok" THEN Bump(v2, c, view.mark[c]) ELSE v2         \* the child object was read before the parent's row was rewritten
  IN IF p \notin view.alive \/ c \notin view.alive
     THEN /\ last' = [lbl EXCEPT !.outcome = "FeatureNotFoundError"] /\ UNCHANGED <<disk, view, open, tainted>>
     ELSE IF <<p, c, 1>> \in view.rels
     THEN /\ last' = [lbl EXCEPT !.outcome = "IntegrityError"] /\ open' = TRUE /\ UNCHANGED <<disk, view, tainted>>
     ELSE IF Raises(pf)
     THEN /\ last' = [lbl EXCEPT !.outcome = "raised"] /\ view' = v1 /\ open' = TRUE /\ tainted' = tainted \cup {<<p, c, 1>>} /\ UNCHANGED disk
     ELSE IF Raises(cf)
     THEN /\ last' = [lbl EXCEPT !.outcome = "raised"] /\ view' = v2 /\ open' = TRUE /\ tainted' = tainted \cup {<<p, c, 1>>} /\ UNCHANGED disk
     ELSE /\ last' = [lbl EXCEPT !.outcome = "ok"] /\ view' = v3 /\ disk' = v3 /\ open' = FALSE /\ UNCHANGED tainted
\* ---- delete ---------------------------------------------------------------
Delete(i) ==
  LET v == [view EXCEPT !.alive = @ \ {i}, !.rels = {r \in @ : r[1] # i /\ r[2] # i}, !.mark[i] = 0]
  IN /\ last' = [op |-> "delete", id |-> i, outcome |-> "ok"]
     /\ view' = v /\ disk' = v /\ open' = FALSE /\ UNCHANGED tainted
\* ---- update ---------------------------------------------------------------
UpdateEmpty == /\ last' = [op |-> "update_empty", outcome |-> "ok"] /\ UNCHANGED <<disk, view, open, tainted>>
UpdateNew(i) ==
  /\ i \in Fresh /\ i \notin view.alive
  /\ IF open THEN /\ last' = [op |-> "update_new", id |-> i, outcome |-> "locked"] /\ UNCHANGED <<disk, view, open, tainted>>
             ELSE /\ last' = [op |-> "update_new", id |-> i, outcome |-> "ok"]
                  /\ view' = [view EXCEPT !.alive = @ \cup {i}, !.rels = @ \cup Compose2(@)] /\ disk' = view' /\ UNCHANGED <<open, tainted>>
\* ---- close and open again -------------------------------------------------
Reopen == /\ last' = [op |-> "reopen", outcome |-> "ok"] /\ view' = disk /\ open' = FALSE /\ UNCHANGED <<disk, tainted>>
Next == \/ \E p, c \in Ids, fp \in FuncPairs : AddRel(p, c, fp)
        \/ \E i \in Ids : Delete(i) \/ UpdateNew(i)
        \/ UpdateEmpty \/ Reopen
Spec == Init /\ [][Next]_vars
\* ---- declarative layer ----------------------------------------------------
Failed(l) == l.outcome # "ok"
Coherent == ~open => view = disk
DurableOnOk == [][(last' # last /\ ~Failed(last') /\ last'.op # "update_empty") => (~open' /\ disk' = view')]_vars
\* update([]) promises nothing about a transaction an earlier call left open: it changes nothing at all
EmptyUpdateIsNoOp == [][(last'.op = "update_empty") => UNCHANGED <<disk, view, open>>]_vars
FailKeepsDisk == [][Failed(last') => disk' = disk]_vars
ReopenIsDisk == [][(last'.op = "reopen") => view' = disk']_vars
ViewMonotone == [][(last'.op = "add_relation" /\ last'.outcome = "raised") => <<last'.p, last'.c, 1>> \in view'.rels]_vars
\* the statement that does not hold: a relation written by a call that then failed reaches the file
NoLateCommit == \A r \in tainted : r \notin disk.rels
\* judge of one recorded step (used by Trace_Txn): pre-state, label incl. observed outcome, post-state
StepOK(d, v, o, lab, d2, v2, o2) ==
  /\ (~o2 => v2 = d2)
  /\ (lab.outcome = "ok" /\ lab.op # "update_empty" => ~o2 /\ d2 = v2)
  /\ (lab.outcome # "ok" => d2 = d)
  /\ (lab.op = "reopen" => v2 = d2 /\ d2 = d)
  /\ (lab.op = "update_empty" => d2 = d /\ v2 = v /\ o2 = o)
=============================================================================
