----------------------------- MODULE Trace_Attr -----------------------------
(* Judge for recorded parser/printer calls on arbitrary text (random Unicode strings, every
   line of the repository's data files).  IOEnv.TRACE_FILE = [wordna, events], each event
     [op |-> "infer", s, raised, attrs, d, printed]     parser._split_keyvals(s) and the re-print
   Verdict (statement of C08b / C07):
     raised     parsing raised                                            -> violation
     types      (checked by the harness projection: attrs is null unless lists of strings)
     roundtrip  s is in the image of Render over the grammar but attrs / printed differ -> violation
     drift      result differs from the algorithmic layer (reported, not a violation)          *)
EXTENDS AttrGrammar, TLC, Json, IOUtils
Data == JsonDeserialize(IOEnv.TRACE_FILE)
WordNAFromFile == ToSet(Data.wordna)
Events == Data.events
VARIABLES i, done
Init == i \in 1..((Len(Events) + 15) \div 16) /\ done = FALSE
Verdict(e) ==
  IF e.raised THEN "raised"
  ELSE IF ~e.typed THEN "types"
  ELSE LET r == Infer(e.s) IN
       IF r.attrs # <<>> /\ InGrammar(r.attrs, r.d) /\ Render(r.attrs, r.d, TRUE, FALSE) = e.s
          /\ (e.attrs # r.attrs \/ e.printed # e.s) THEN "roundtrip"
       ELSE IF e.attrs # r.attrs \/ e.d # r.d \/ e.printed # Render(r.attrs, r.d, TRUE, FALSE) THEN "drift"
       ELSE "ok"
Next == /\ ~done /\ done' = TRUE /\ i' = i
        /\ \A j \in ((i - 1) * 16 + 1)..Min2(i * 16, Len(Events)) :
             LET v == Verdict(Events[j]) IN v = "ok" \/ PrintT(ToJson([reject |-> j, clause |-> v]))
=============================================================================
