---------------------------- MODULE Trace_Region ----------------------------
(* Judge for recorded region()/limit= calls.  IOEnv.TRACE_FILE holds
     [dbs |-> <<features of db 1, features of db 2, ...>>,
      events |-> << [db, q, ids], ... >>]        ids = ids in the order returned
   The verdict is decided by the declarative layer (what C06 states):
     dup      some feature returned more than once
     missing  a feature that must be returned is not
     extra    a feature that may not be returned is
   Agreement with the algorithmic layer is reported separately (drift), because where the
   statement leaves freedom (features touching a one-sided bound) other code could be right. *)
EXTENDS Region, TLC, Json, IOUtils

Data == JsonDeserialize(IOEnv.TRACE_FILE)
ToSet(sq) == {sq[i] : i \in 1..Len(sq)}
DBs == [k \in 1..Len(Data.dbs) |-> ToSet(Data.dbs[k])]
Q(e) == [api |-> e.q.api, seqid |-> e.q.seqid, s |-> e.q.s, e |-> e.q.e, within |-> e.q.within,
         strand |-> e.q.strand, ftypes |-> ToSet(e.q.ftypes), anyType |-> e.q.anyType]

Verdict(e) ==
  LET F == DBs[e.db]  q == Q(e)  got == ToSet(e.ids) IN
  IF Cardinality(got) # Len(e.ids) THEN "dup"
  ELSE IF ~(IdsMust(F, q) \subseteq got) THEN "missing"
  ELSE IF ~(got \subseteq IdsMay(F, q)) THEN "extra"
  ELSE IF got # IdsAlg(F, q) THEN "drift"
  ELSE "ok"

VARIABLES i, done
Init == i \in 1..((Len(Data.events) + 63) \div 64) /\ done = FALSE
\* 64 events per state keeps the state count (and the fingerprint set) small
Next == /\ ~done /\ done' = TRUE /\ i' = i
        /\ \A j \in ((i - 1) * 64 + 1)..(IF i * 64 < Len(Data.events) THEN i * 64 ELSE Len(Data.events)) :
             LET v == Verdict(Data.events[j]) IN v = "ok" \/ PrintT(ToJson([reject |-> j, clause |-> v]))
=============================================================================
