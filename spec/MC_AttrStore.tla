---------------------------- MODULE MC_AttrStore ----------------------------
(* C17 bounded instance.
   (1) action sequences of depth <= Depth over {set scalar, set list, set via Feature, update many,
       delete, toggle always_return_list, JSON round trip}: invariants on the store; every behaviour is
       printed with the view after each step.
   (2) all pairs of a mapping menu x numeric_sort: Merge_Alg = Merge_Decl, printed for replay.        *)
EXTENDS AttrStore, TLC, Json
CONSTANT Depth, Mode      \* Mode "ops" | "merge"
CONSTANT Deviations       \* {} or {"Dev_SwitchLeaksIntoPrint"}
KA == <<97>>  KB == <<98>>  KC == <<78, 97, 109, 101>>
V1 == <<120>>  V2 == <<233, 20013>>  V3 == <<53>>  V4 == <<52, 46, 50>>  V5 == <<49, 48>>  V6 == <<32, 53>>
\* the texts of this model that float() accepts, with ten times their value (' 5' parses as 5.0 and ties with '5')
MCNumTable == {<<V3, 50>>, <<V4, 42>>, <<V5, 100>>, <<V6, 50>>}
Values == {[scalar |-> V1], [scalar |-> V2], [list |-> <<>>], [list |-> <<V1>>], [list |-> <<V1, V2>>], [scalar |-> <<>>]}
Keys == {KA, KB, KC}

VARIABLES store, sw, h
Init == store = <<>> /\ sw = TRUE /\ h = <<>>
Rec(op, args) == [op |-> op, view |-> ViewAll(store', sw'), under |-> store', sw |-> sw', printed |-> Printed(store', sw', FALSE),
                  printedLeak |-> Printed(store', sw', TRUE)] @@ args
\* a Feature whose attributes arrive as a plain mapping / as stored JSON text that still holds scalars (first step only): loading wraps every scalar
RawSeeds == { <<<<KB, [scalar |-> V1]>>, <<KA, [list |-> <<V1, V2>>]>>, <<KC, [scalar |-> <<>>]>>>>, <<<<KA, [scalar |-> V2]>>>> }
Ops == \/ \E raw \in RawSeeds : h = <<>> /\ store' = Load(raw) /\ sw' = sw /\ h' = Append(h, Rec("load", [raw |-> raw]))
       \/ \E k \in Keys, v \in Values, via \in {"attributes", "feature"} :
            store' = SetItem(store, k, v) /\ sw' = sw /\ h' = Append(h, Rec("set", [k |-> k, v |-> v, via |-> via]))
       \/ \E kvs \in {<<<<KA, [scalar |-> V1]>>, <<KB, [list |-> <<V2, V1>>]>>>>, <<<<KC, [list |-> <<>>]>>>>} :
            store' = UpdateMany(store, kvs) /\ sw' = sw /\ h' = Append(h, Rec("update", [kvs |-> kvs]))
       \/ \E k \in {store[i][1] : i \in 1..Len(store)} :
            store' = DelItem(store, k) /\ sw' = sw /\ h' = Append(h, Rec("del", [k |-> k]))
       \/ store' = store /\ sw' = ~sw /\ h' = Append(h, Rec("toggle", [x |-> 0]))
       \/ store' = JsonRoundTrip(store) /\ sw' = sw /\ h' = Append(h, Rec("json", [x |-> 0]))

Maps == { <<>>, <<<<KA, <<V3>>>>>>, <<<<KA, <<V3, V4>>>>, <<KB, <<V1>>>>>>, <<<<KB, <<V2, V1>>>>, <<KA, <<V5>>>>>>, <<<<KA, <<V6>>>>>>,
          <<<<KC, <<>>>>, <<KA, <<V4, V1>>>>>>, <<<<KA, <<V5, V3, V5>>>>>>, <<<<KC, <<V1>>>>, <<KA, <<>>>>>> }
VARIABLES m1, m2, num
MergeInit == m1 \in Maps /\ m2 \in Maps /\ num \in BOOLEAN
vars == <<store, sw, h, m1, m2, num>>
InitAll == IF Mode = "ops" THEN Init /\ m1 = <<>> /\ m2 = <<>> /\ num = FALSE
           ELSE MergeInit /\ store = <<>> /\ sw = TRUE /\ h = <<>>
NextAll == IF Mode = "ops" THEN Len(h) < Depth /\ Ops /\ UNCHANGED <<m1, m2, num>>
           ELSE /\ h = <<>> /\ h' = <<1>> /\ UNCHANGED <<store, sw, m1, m2, num>>
                /\ PrintT(ToJson([a1 |-> m1, a2 |-> m2, numeric |-> num, exp |-> Merge_Decl(m1, m2, num)]))
Emit == (Mode = "ops" /\ Len(h) = Depth) => PrintT(ToJson([h |-> h]))

\* values are always sequences, however they were set
InvSeqs == \A i \in 1..Len(store) : store[i][2] \in Seq(Seq(Nat))
\* the switch only changes the view of one-item lists
InvSwitch == \A i \in 1..Len(store) : LET v == View(store, store[i][1], sw) IN
                IF sw \/ Len(store[i][2]) # 1 THEN v = [list |-> store[i][2]] ELSE v = [scalar |-> store[i][2][1]]
InvKeysOnce == NoDup(AttrKeys(store))
\* the printed attribute column does not depend on the switch (with the leak switched on this must FAIL: the known finding is a defect)
Leak == "Dev_SwitchLeaksIntoPrint" \in Deviations
InvPrintIgnoresSwitch == Printed(store, sw, Leak) = Printed(store, TRUE, FALSE)
InvMerge == Mode = "merge" => Merge_Alg(m1, m2, num) = Merge_Decl(m1, m2, num)
=============================================================================
