------------------------------- MODULE Gen_DB -------------------------------
(* The database model run on recorded inputs.  IOEnv.SEED_FILE = [hist |-> <<h1, h2, ...>>] with
     h = [init |-> [feats, cfg, dirs], steps |-> << step, ... >>, rel |-> BOOLEAN]
     step = [op |-> "update", feats, cfg] | [op |-> "updatefail", feats, cfg] | [op |-> "delete", ids]
          | [op |-> "addrel", p, c, l, rewrite] | [op |-> "reopen"]
   For each history the specification prints its trajectory: the projected database and the
   handle's live counters after create and after every step.  The harness executes the same
   history on a real file database and compares the projections after every step.
   The constant Deviations switches named known findings on (second judgement).              *)
EXTENDS GffDB, Json, IOUtils
Data == JsonDeserialize(IOEnv.SEED_FILE)
Hist == Data.hist
WordNAFromFile == {}
GtfDialectG == [DefaultDialect EXCEPT !.fmt = "gtf", !.kvsep = <<SP>>, !.fsep = <<SEMI, SP>>, !.quoted = TRUE, !.trail = TRUE]


\* one step of a history on the model state m = [st, db, ctr, handed]
WantsBackup(s) == s.op \in {"update", "updatefail", "delete"} /\ "backup" \in DOMAIN s /\ s.backup
Step(m0, s) ==
  IF m0.st # "ok" THEN m0
  ELSE LET m == IF WantsBackup(s) THEN [m0 EXCEPT !.bak = Proj(m0.db)] ELSE m0 IN
       CASE s.op = "update" ->
              LET r == Update(m.db, m.ctr, s.feats, s.cfg) IN
              IF r.st = "raise" THEN [m EXCEPT !.st = "raise"] ELSE [m EXCEPT !.db = r.db, !.ctr = r.ctr]
         [] s.op = "updatefail" -> [m EXCEPT !.st = "failed"]        \* only the backup is asserted afterwards (by the harness)
         [] s.op = "delete" -> [m EXCEPT !.db = Delete(m.db, ToSet(s.ids))]
         [] s.op = "addrel" ->
              LET r == AddRel(m.db, s.p, s.c, s.l, s.rewrite) IN [m EXCEPT !.st = IF r.st = "ok" THEN "ok" ELSE r.st, !.db = r.db]
         [] s.op = "reopen" -> [m EXCEPT !.ctr = Reopen(m.db)]
RECURSIVE Run(_, _, _)
Run(m, steps, acc) ==
  IF steps = <<>> THEN acc
  ELSE LET m1 == Step(m, Head(steps)) IN
       \* a step that raises / does not find its argument leaves the database as it was and the history goes on
       LET m2 == IF m1.st \in {"raise", "notfound"} THEN [m EXCEPT !.st = "ok", !.bak = m1.bak] ELSE m1 IN
       Run(m2, Tail(steps), Append(acc, (Snap(m1.st, m1.db, m1.ctr) @@ [bak |-> m1.bak])))

Trajectory(h) ==
  LET isGtf == "gtf" \in DOMAIN h.init /\ h.init.gtf
      c == Create(h.init.feats, h.init.dirs, IF isGtf THEN GtfDialectG ELSE DefaultDialect, IF isGtf THEN [h.init.cfg EXCEPT !.importer = "gtf"] ELSE h.init.cfg) IN
  IF c.st = "raise" THEN <<Snap("raise", EmptyDB, {}) @@ [bak |-> [none |-> TRUE]]>>
  ELSE Run([st |-> "ok", db |-> c.db, ctr |-> c.ctr, bak |-> [none |-> TRUE]], h.steps, <<Snap("ok", c.db, c.ctr) @@ [bak |-> [none |-> TRUE]]>>)

RelView(db) == [kids |-> {[x |-> x, l |-> l, ids |-> Children(db, x, l)] : x \in Ids(db), l \in 0..2},
                pars |-> {[x |-> x, l |-> l, ids |-> Parents(db, x, l)] : x \in Ids(db), l \in 0..2},
                decl |-> (db.rels = Rel1_Decl(db) \cup Rel2_Decl(db))]

VARIABLES i, done
Init == i \in 1..Len(Hist) /\ done = FALSE
Next == /\ ~done /\ done' = TRUE /\ i' = i
        /\ LET h == Hist[i]  tr == Trajectory(h) IN
           PrintT(ToJson([k |-> i, traj |-> tr] @@
                         (IF h.rel /\ tr[1].st = "ok" THEN [rel |-> RelView(Create(h.init.feats, h.init.dirs, DefaultDialect, h.init.cfg).db)] ELSE [rel |-> FALSE])))
=============================================================================
