------------------------------ MODULE MC_Writer ------------------------------
(* Bounded instance of Writer: a gene g with two mRNAs (m1, m2), up to three exons distributed over them (possibly shared: Parent=m1,m2),
   an optional CDS under m1, an optional record x below the first exon (depth 3) and an optional non-mRNA child of the gene, every start
   order of the exons.  Invariant: the walk (Write_Alg) satisfies what the docstring promises (WriterOK).  Each case is printed for replay. *)
EXTENDS Writer, Json
G == <<103>>  M1 == <<109, 49>>  M2 == <<109, 50>>  E(i) == <<101, 48 + i>>  X == <<120>>  C == <<99>>  U == <<117>>
T_CDSw == <<67, 68, 83>>
VARIABLES par, st, opt, done, DB
\* par[i] : parents of exon i (subset of {m1, m2}, non-empty); st[i] : start of exon i; opt : which optional records exist
Init == /\ par \in [1..3 -> {{M1}, {M2}, {M1, M2}}] /\ st \in [1..3 -> {1, 5, 9}] /\ opt \in SUBSET {"cds", "deep", "other", "e3"}
        /\ done = FALSE /\ DB = EmptyDB
Feat(id, ft, parents, s, e) == [MkF(id, ft, parents, <<>>) EXCEPT !.start = s, !.end = e]
LinesOf == <<Feat(G, T_gene, <<>>, 1, 30), Feat(M1, T_mRNAw, <<G>>, 1, 30), Feat(M2, T_mRNAw, <<G>>, 1, 20)>>
           \o [i \in 1..(IF "e3" \in opt THEN 3 ELSE 2) |-> Feat(E(i), T_exon, SetToSortedSeq(par[i]), st[i], st[i] + i)]
           \o (IF "cds" \in opt THEN <<Feat(C, T_CDSw, <<M1>>, 2, 3)>> ELSE <<>>)
           \o (IF "deep" \in opt THEN <<Feat(X, <<112>>, <<E(1)>>, st[1], st[1])>> ELSE <<>>)
           \o (IF "other" \in opt THEN <<Feat(U, <<117, 116, 114>>, <<G>>, 25, 30)>> ELSE <<>>)
Next == /\ ~done /\ done' = TRUE /\ UNCHANGED <<par, st, opt>>
        /\ DB' = Create(LinesOf, <<>>, DefaultDialect, DefaultCfg).db
        /\ PrintT(ToJson([lines |-> [i \in 1..Len(LinesOf) |-> LineText(WithId(LinesOf[i]), DefaultDialect)], feats |-> DB'.feats, rels |-> DB'.rels,
                          out |-> Write_Alg(DB', G)]))
InvWriter == done => WriterOK(DB, G, Write_Alg(DB, G))
\* the deep record is written twice (below its exon, and among the non-exonic rest of every mRNA that owns the exon)
InvDeepTwice == (done /\ "deep" \in opt) => Count(Write_Alg(DB, G), X) >= 2
=============================================================================
