------------------------------ MODULE Dialect ------------------------------
(***************************************************************************)
(* C09: choosing one dialect for a file (helpers._choose_dialect) from the *)
(* features of the inspected window (iterators: peek(n) takes n+1 items).  *)
(* A window item is [attrs, d]: the line's attributes and per-line dialect.*)
(***************************************************************************)
EXTENDS AttrGrammar

Window(lines, checklines) == SubSeq(lines, 1, Min2(Len(lines), checklines + 1))
Weight(item) == Len(item.attrs)

DKeys == <<"lead", "trail", "quoted", "fsep", "kvsep", "mvsep", "fmt", "rep", "order">>
Field(d, k) == CASE k = "lead" -> <<"b", d.lead>> [] k = "trail" -> <<"b", d.trail>> [] k = "quoted" -> <<"b", d.quoted>>
                 [] k = "fsep" -> <<"t", d.fsep>> [] k = "kvsep" -> <<"t", d.kvsep>> [] k = "mvsep" -> <<"t", d.mvsep>>
                 [] k = "fmt" -> <<"s", d.fmt>> [] k = "rep" -> <<"b", d.rep>> [] k = "order" -> <<"o", d.order>>

(* ---- algorithmic: count table in first-seen order, then a stable descending sort ---- *)
RECURSIVE Tally(_, _, _)
Tally(win, k, tab) ==      \* tab : sequence of <<value, weight>> in first-seen order
  IF win = <<>> THEN tab
  ELSE LET v == Field(Head(win).d, k)
           i == IF \E j \in 1..Len(tab) : tab[j][1] = v THEN CHOOSE j \in 1..Len(tab) : tab[j][1] = v ELSE 0
           tab1 == IF i = 0 THEN Append(tab, <<v, Weight(Head(win))>>) ELSE [tab EXCEPT ![i] = <<v, tab[i][2] + Weight(Head(win))>>]
       IN Tally(Tail(win), k, tab1)
Winner_Alg(win, k) == LET tab == Tally(win, k, <<>>)
                          srt == StableSortIdx(tab, LAMBDA i, j : tab[i][2] > tab[j][2])    \* sorted(..., reverse=True) is stable
                      IN srt[1][1][2]

RECURSIVE FirstSeenKeys(_, _)
FirstSeenKeys(win, acc) == IF win = <<>> THEN acc ELSE FirstSeenKeys(Tail(win), Dedup(AttrKeys(Head(win).attrs), acc))

Choose_Alg(win) ==
  IF win = <<>> THEN DefaultDialect
  ELSE [lead |-> Winner_Alg(win, "lead"), trail |-> Winner_Alg(win, "trail"), quoted |-> Winner_Alg(win, "quoted"),
        fsep |-> Winner_Alg(win, "fsep"), kvsep |-> Winner_Alg(win, "kvsep"), mvsep |-> Winner_Alg(win, "mvsep"),
        fmt |-> Winner_Alg(win, "fmt"), rep |-> Winner_Alg(win, "rep"), order |-> FirstSeenKeys(win, <<>>)]

(* ---- declarative: weighted majority, ties to the value seen first ---- *)
TotalWeight(win, k, v) == SumSeq([i \in 1..Len(win) |-> IF Field(win[i].d, k) = v THEN Weight(win[i]) ELSE 0])
FirstPos(win, k, v) == CHOOSE i \in 1..Len(win) : Field(win[i].d, k) = v /\ \A j \in 1..(i - 1) : Field(win[j].d, k) # v
IsWinner(win, k, v) ==
  /\ \E i \in 1..Len(win) : Field(win[i].d, k) = v
  /\ \A i \in 1..Len(win) : LET u == Field(win[i].d, k) IN
        u # v => \/ TotalWeight(win, k, u) < TotalWeight(win, k, v)
                 \/ (TotalWeight(win, k, u) = TotalWeight(win, k, v) /\ FirstPos(win, k, v) < FirstPos(win, k, u))
Choose_Decl(win, d) ==
  IF win = <<>> THEN d = DefaultDialect
  ELSE /\ \A n \in 1..8 : IsWinner(win, DKeys[n], Field(d, DKeys[n]))
       /\ d.order = FirstSeenKeys(win, <<>>)

\* the importer is selected by the chosen format
Importer(d) == IF d.fmt = "gtf" THEN "gtf" ELSE "gff3"
=============================================================================
