----------------------------- MODULE MC_Region -----------------------------
(* Pointwise check of Region: for every feature and query over boundary
   coordinates (bin multiples +-1, 2^29 +-1) the SQL-shaped predicate is sound
   and complete w.r.t. the statement of C06.                                    *)
EXTENDS Region, TLC
RC == UNION {{m * Sz(k) + d : m \in {0, 1, 8}, d \in {-1, 0, 1}} : k \in {0, 1, 3}} \cup {1, 2, MAXC - 1, MAXC, MAXC + 1, MAXC + 131072}
Pos == {c \in RC : c >= 1}
VARIABLES f, q
Init == /\ f \in {[id |-> "x", seqid |-> "c", s |-> a, e |-> b, strand |-> "+", ftype |-> "t"] : a \in Pos, b \in Pos}
        /\ f.s <= f.e
        /\ q = [api |-> "none"]
Next == /\ q.api = "none" /\ f' = f
        /\ q' \in {[api |-> ap, seqid |-> "c", s |-> a, e |-> b, within |-> w, strand |-> "", ftypes |-> {}, anyType |-> TRUE] :
                     ap \in {"region", "limit"}, a \in Pos \cup {0}, b \in Pos \cup {0}, w \in BOOLEAN}
        /\ (q'.s # 0 /\ q'.e # 0 => q'.s <= q'.e)
        /\ (q'.api = "limit" => q'.s # 0 /\ q'.e # 0)
        /\ ~(q'.s = 0 /\ q'.e = 0)
InvSound    == q.api # "none" => Sound(f, q)
InvComplete == q.api # "none" => Complete(f, q)
=============================================================================
