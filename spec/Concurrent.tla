----------------------------- MODULE Concurrent -----------------------------
(***************************************************************************)
(* C20: N create_db runs in separate processes sharing one temporary       *)
(* directory, separate output files.  Per process the steps that touch     *)
(* shared state are (create.py _update_relations, both importers):         *)
(*   Mk   tempfile.NamedTemporaryFile(delete=False)  - atomic, fresh name  *)
(*   Wr   open(tmp, 'w') ... write the intermediate rows                   *)
(*   Rd   open(tmp)      ... read them back                                *)
(*   Rm   os.unlink(tmp)                                                   *)
(* around them: Populate (private), Ins (private).                         *)
(* The state is the record S = [pc, tmp, myTmp, readBack, outDb];          *)
(* tmp : the shared directory, name -> [owner, data].  Every step is given *)
(* as a guard G* and a state function S*, so that the trace specification  *)
(* can compose unlogged private steps with logged ones.                    *)
(* NameMode "fresh" is the design; "fixed" / "perKind" exist to show that  *)
(* anything else breaks the invariants.                                    *)
(***************************************************************************)
EXTENDS Integers, FiniteSets, Sequences, TLC
CONSTANTS Procs, Names, NameMode, Kind     \* Kind : [Procs -> {"gff", "gtf"}]
VARIABLES pc, tmp, myTmp, readBack, outDb
vars == <<pc, tmp, myTmp, readBack, outDb>>
S == [pc |-> pc, tmp |-> tmp, myTmp |-> myTmp, readBack |-> readBack, outDb |-> outDb]
SetS(r) == pc' = r.pc /\ tmp' = r.tmp /\ myTmp' = r.myTmp /\ readBack' = r.readBack /\ outDb' = r.outDb
NoName == "-"
Data(p) == <<"rows of", p>>
Import(p, rows) == <<"db of", p, rows>>

S0 == [pc |-> [p \in Procs |-> "start"], tmp |-> [n \in {} |-> 0], myTmp |-> [p \in Procs |-> NoName],
       readBack |-> [p \in Procs |-> <<>>], outDb |-> [p \in Procs |-> <<>>]]
Init == pc = S0.pc /\ tmp = S0.tmp /\ myTmp = S0.myTmp /\ readBack = S0.readBack /\ outDb = S0.outDb
Exists(s, n) == n \in DOMAIN s.tmp
Put(s, n, v) == [x \in DOMAIN s.tmp \cup {n} |-> IF x = n THEN v ELSE s.tmp[x]]
Del(s, n) == [x \in DOMAIN s.tmp \ {n} |-> s.tmp[x]]

GPopulate(s, p) == s.pc[p] = "start"
SPopulate(s, p) == [s EXCEPT !.pc[p] = "mk"]
NameFor(s, p, n) == CASE NameMode = "fresh" -> ~Exists(s, n)
                      [] NameMode = "fixed" -> n = CHOOSE x \in Names : TRUE
                      [] NameMode = "perKind" -> n = (IF Kind[p] = "gff" THEN CHOOSE x \in Names : TRUE ELSE CHOOSE x \in Names : x # (CHOOSE y \in Names : TRUE))
GMk(s, p, n) == s.pc[p] = "mk" /\ n \in Names /\ NameFor(s, p, n)
SMk(s, p, n) == [s EXCEPT !.tmp = Put(s, n, [owner |-> p, data |-> <<>>]), !.myTmp[p] = n, !.pc[p] = "wr"]
GWr(s, p) == s.pc[p] = "wr"
SWr(s, p) == [s EXCEPT !.tmp = Put(s, s.myTmp[p], [owner |-> p, data |-> Data(p)]), !.pc[p] = "rd"]
GRd(s, p) == s.pc[p] = "rd"
SRd(s, p) == [s EXCEPT !.readBack[p] = IF Exists(s, s.myTmp[p]) THEN s.tmp[s.myTmp[p]].data ELSE <<"missing">>, !.pc[p] = "ins"]
GIns(s, p) == s.pc[p] = "ins"
SIns(s, p) == [s EXCEPT !.outDb[p] = Import(p, s.readBack[p]), !.pc[p] = "rm"]
GRm(s, p) == s.pc[p] = "rm"
SRm(s, p) == [s EXCEPT !.tmp = Del(s, s.myTmp[p]), !.pc[p] = "done"]

Populate(p) == GPopulate(S, p) /\ SetS(SPopulate(S, p))
Mk(p, n) == GMk(S, p, n) /\ SetS(SMk(S, p, n))
Wr(p) == GWr(S, p) /\ SetS(SWr(S, p))
Rd(p) == GRd(S, p) /\ SetS(SRd(S, p))
Ins(p) == GIns(S, p) /\ SetS(SIns(S, p))
Rm(p) == GRm(S, p) /\ SetS(SRm(S, p))
Next == \E p \in Procs : Populate(p) \/ (\E n \in Names : Mk(p, n)) \/ Wr(p) \/ Rd(p) \/ Ins(p) \/ Rm(p)
Spec == Init /\ [][Next]_vars

Holding(s, p) == s.pc[p] \in {"wr", "rd", "ins", "rm"}
AllDoneS(s) == \A p \in Procs : s.pc[p] = "done"
IsolationS(s) == \A p \in Procs : s.pc[p] \in {"ins", "rm", "done"} => s.readBack[p] = Data(p)
OwnFileOnlyS(s) == \A p \in Procs : (Holding(s, p) /\ Exists(s, s.myTmp[p])) => s.tmp[s.myTmp[p]].owner = p
DistinctNamesS(s) == \A p, q \in Procs : (p # q /\ Holding(s, p) /\ Holding(s, q)) => s.myTmp[p] # s.myTmp[q]
CleanupS(s) == AllDoneS(s) => DOMAIN s.tmp = {}
SolitaryResultS(s) == \A p \in Procs : s.pc[p] \in {"rm", "done"} => s.outDb[p] = Import(p, Data(p))
AllDone == AllDoneS(S)
Isolation == IsolationS(S)
OwnFileOnly == OwnFileOnlyS(S)
DistinctNames == DistinctNamesS(S)
Cleanup == CleanupS(S)
SolitaryResult == SolitaryResultS(S)
=============================================================================
