------------------------------- MODULE Bins -------------------------------
(***************************************************************************)
(* UCSC genomic binning as used by gffutils (bins.py).  Five levels; the   *)
(* finest bin is 2^17 = 128 kb, each level is 8 times coarser, the         *)
(* coarsest (level 4) is 2^29 = 512 Mb and has the single bin 1.           *)
(*                                                                         *)
(* Two layers:                                                             *)
(*   *_Alg  : transcription of bins.bins (guards, shifts, the level loop)  *)
(*   *_Decl : what property C12 says, written from bin extents only        *)
(* Integers only, so Apalache can discharge the lemmas for ALL coordinates *)
(* (ApaBins.tla); TLC checks them on boundary coordinates (MC_Bins.tla).   *)
(***************************************************************************)
EXTENDS Integers

MAXC == 536870912              \* 2^29, bins.MAX_CHROM_SIZE
NLEV == 5

Sz(k)  == IF k = 0 THEN 131072 ELSE IF k = 1 THEN 1048576 ELSE IF k = 2 THEN 8388608
          ELSE IF k = 3 THEN 67108864 ELSE 536870912
Off(k) == IF k = 0 THEN 4681 ELSE IF k = 1 THEN 585 ELSE IF k = 2 THEN 73 ELSE IF k = 3 THEN 9 ELSE 1
MaxBin == 4681 + 4095

CoordOff(fmt) == IF fmt = "gff" THEN 1 ELSE 0

\* Python's >> on (possibly negative) integers is floor division; so is TLA+'s \div.
Shr(x, k) == x \div Sz(k)

(***************************************************************************)
(* Algorithmic layer                                                       *)
(***************************************************************************)
OutOfRange(start, stop) == start >= MAXC \/ stop >= MAXC \/ start < 0 \/ stop < 0

\* the level at which the descent of bins(one=True) stops; NLEV if it never does
\* (that is the fall-through of the loop: Python then returns the *set*).
StopLevel(a, b) ==
  IF Shr(a, 0) = Shr(b, 0) THEN 0 ELSE IF Shr(a, 1) = Shr(b, 1) THEN 1 ELSE IF Shr(a, 2) = Shr(b, 2) THEN 2
  ELSE IF Shr(a, 3) = Shr(b, 3) THEN 3 ELSE IF Shr(a, 4) = Shr(b, 4) THEN 4 ELSE NLEV

\* per-level index ranges accumulated by the loop: level k adds Off(k)+Shr(a,k) .. Off(k)+Shr(b,k)
RangeLo(a, k) == Off(k) + Shr(a, k)
RangeHi(b, k) == Off(k) + Shr(b, k)

\* membership in the accumulated set without building it
InRanges(x, a, b, upto) == x = 1 \/ \E k \in 0..upto : RangeLo(a, k) <= x /\ x <= RangeHi(b, k)

\* Dev_ShiftedStartUnguarded (known finding / fixed defect F8): before the repair, a start of 0 in
\* the 1-based convention was not recognised as out of range and the one=True descent fell through.
ShiftedNegative(start, fmt) == start - CoordOff(fmt) < 0

(* result of bins(start, stop, fmt, one=True):  [int |-> TRUE, v |-> bin]  or the fall-through
   [int |-> FALSE, ...] which the harness reports as a type violation.                          *)
OneBin_Alg(start, stop, fmt) ==
  IF OutOfRange(start, stop) \/ ShiftedNegative(start, fmt) THEN 1
  ELSE LET a == start - CoordOff(fmt)
           k == StopLevel(a, stop)
       IN IF k = NLEV THEN -1            \* cannot happen for 0 <= a, stop < 2^29 (lemma FallThroughNever)
          ELSE Off(k) + Shr(a, k)

InSet_Alg(x, start, stop, fmt) ==
  IF OutOfRange(start, stop) \/ ShiftedNegative(start, fmt) THEN x = 1
  ELSE InRanges(x, start - CoordOff(fmt), stop, NLEV - 1)


(***************************************************************************)
(* Declarative layer: bins as extents over 0-based positions               *)
(***************************************************************************)
\* ids of the bins that lie below 2^29 (level 4 nominally has ids 1..8; only bin 1 is in range)
ValidBin(x) == \E k \in 0..4 : Off(k) <= x /\ x < Off(k) + (MAXC \div Sz(k))
LevelOf(x) == IF x >= 4681 THEN 0 ELSE IF x >= 585 THEN 1 ELSE IF x >= 73 THEN 2 ELSE IF x >= 9 THEN 3 ELSE 4
Lo(x) == (x - Off(LevelOf(x))) * Sz(LevelOf(x))
Hi(x) == Lo(x) + Sz(LevelOf(x)) - 1

\* 0-based closed positions p..q lie inside / meet the extent of bin x
Inside(x, p, q) == Lo(x) <= p /\ q <= Hi(x)
Meets(x, p, q)  == Lo(x) <= q /\ p <= Hi(x)

\* the level of the smallest bin containing positions p..q
SmallestLevel(p, q) ==
  IF p \div Sz(0) = q \div Sz(0) THEN 0 ELSE IF p \div Sz(1) = q \div Sz(1) THEN 1 ELSE IF p \div Sz(2) = q \div Sz(2) THEN 2
  ELSE IF p \div Sz(3) = q \div Sz(3) THEN 3 ELSE 4

\* "in range" as the statement words it, per convention: gff is 1-based closed, bed 0-based half-open
InRange(start, stop, fmt) == start >= CoordOff(fmt) /\ stop >= 0 /\ start < MAXC /\ stop < MAXC

\* first and last 0-based position of the interval (gff: start-1 .. stop-1 ; bed: start .. stop-1)
P0(start, fmt) == start - CoordOff(fmt)
Q0(stop) == stop - 1

(* C12, first sentence.  For an in-range, non-empty interval the single bin
   - is a bin of the scheme,
   - contains the interval,
   - is no coarser than the smallest bin containing the interval plus the following base. *)
OneBin_Decl(x, start, stop, fmt) ==
  IF ~InRange(start, stop, fmt) THEN x = 1
  ELSE IF P0(start, fmt) <= Q0(stop)
       THEN /\ ValidBin(x)
            /\ Inside(x, P0(start, fmt), Q0(stop))
            /\ LevelOf(x) <= SmallestLevel(P0(start, fmt), Q0(stop) + 1)
       \* the EMPTY interval (end = start - 1, in range): there is nothing to contain, and "the interval plus the following base" is that one
       \* base - so the bin is one of the finest level.  (For start > end + 1 there is no interval at all: the statement is silent.)
       ELSE (P0(start, fmt) = Q0(stop) + 1) => (ValidBin(x) /\ LevelOf(x) <= SmallestLevel(Q0(stop) + 1, Q0(stop) + 1))

(* C12, set form: contains every bin meeting the interval; only bins meeting it or the base
   on either side.                                                                          *)
SetComplete(x, start, stop, fmt) ==
  (InRange(start, stop, fmt) /\ P0(start, fmt) <= Q0(stop) /\ ValidBin(x) /\ Meets(x, P0(start, fmt), Q0(stop)))
     => InSet_Alg(x, start, stop, fmt)
SetNear(x, start, stop, fmt) ==
  (InRange(start, stop, fmt) /\ P0(start, fmt) <= Q0(stop) /\ InSet_Alg(x, start, stop, fmt))
     => ValidBin(x) /\ Meets(x, P0(start, fmt) - 1, Q0(stop) + 1)
SetOutOfRange(x, start, stop, fmt) ==
  ~InRange(start, stop, fmt) => (InSet_Alg(x, start, stop, fmt) <=> x = 1)

(* C12, "hence": the index lemma.  f = stored feature, q = query, both 1-based closed, in range *)
Overlap(fs, fe, qs, qe) == fs <= qe /\ fe >= qs
Within(fs, fe, qs, qe)  == qs <= fs /\ fe <= qe
OneInSet(fs, fe, qs, qe) ==
  (fs <= fe /\ qs <= qe /\ InRange(fs, fe, "gff") /\ InRange(qs, qe, "gff") /\ Overlap(fs, fe, qs, qe))
     => InSet_Alg(OneBin_Alg(fs, fe, "gff"), qs, qe, "gff")

FallThroughNever(start, stop, fmt) == OneBin_Alg(start, stop, fmt) # -1
=============================================================================
