---------------------------- MODULE MC_AttrEnum ----------------------------
(* C08 (totality) and the binding of Infer / ParseWith to the code: every string of
   length <= N over the structural alphabet.  TLC evaluates Infer and ParseWith under
   three supplied dialects for each string (an undefined application would be an
   evaluation error = a totality failure of the transcription), checks the type
   invariant, and prints the results, which the harness compares with the real parser. *)
EXTENDS AttrSyntax, TLC, Json
CONSTANT N
\*        a   ;     blank =   "   ,      %    2   3   B
Sigma == {97, SEMI, SP,   EQ, QT, COMMA, PCT, 50, 51, 66}
Strs(n) == UNION {[1..k -> Sigma] : k \in 0..n}

D_gff3 == DefaultDialect
D_gtf  == [DefaultDialect EXCEPT !.fmt = "gtf", !.kvsep = <<SP>>, !.fsep = <<SEMI, SP>>, !.quoted = TRUE, !.trail = TRUE]
D_gtfl == [D_gtf EXCEPT !.lead = TRUE, !.rep = TRUE]

VARIABLES pre, s, done
Init == /\ pre \in Strs(2) /\ s = <<>> /\ done = FALSE
Emit(x) == PrintT(ToJson([s |-> x, inf |-> Infer(x), w1 |-> ParseWith(x, D_gff3), w2 |-> ParseWith(x, D_gtf),
                          w3 |-> ParseWith(x, D_gtfl)]))
Next == /\ ~done /\ done' = TRUE /\ pre' = pre
        /\ s' \in (IF Len(pre) < 2 THEN {pre} ELSE {pre \o suf : suf \in Strs(N - 2)})
        /\ Emit(s')

IsAttrs(a) == \A i \in 1..Len(a) : /\ a[i][1] \in Seq(Nat)
                                   /\ \A j \in 1..Len(a[i][2]) : a[i][2][j] \in Seq(Nat)
TypeOK == done => /\ IsAttrs(Infer(s).attrs) /\ IsAttrs(ParseWith(s, D_gff3))
                  /\ IsAttrs(ParseWith(s, D_gtf)) /\ IsAttrs(ParseWith(s, D_gtfl))
\* keys are recorded once, in first-seen order
KeysOnce == done => NoDup(AttrKeys(Infer(s).attrs))
=============================================================================
