------------------------------- MODULE GffDB -------------------------------
(***************************************************************************)
(* The gffutils database as a state machine (create.py, interface.py).     *)
(*                                                                         *)
(* DB (durable; one per sqlite file)                                       *)
(*   feats   : Seq(Feature)        rowid order                             *)
(*             Feature = [id, seqid, source, ftype : text, start, end : Int*)
(*                        (-1 = '.'), score, strand, frame : text,         *)
(*                        attrs : Seq(<<key, Seq(value)>>), extra : Seq(text)] *)
(*   rels    : SUBSET (id \X id \X {1,2,..})   primary key (parent, child, level) *)
(*   dirs    : Seq(text)           directives                              *)
(*   ctrP    : set of <<base, n>>  persisted counters (autoincrements)     *)
(*   dups    : set of <<idspecid, newid>>                                  *)
(*   dialect, nmeta                                                        *)
(* Handle: ctrL (live counters, shared with the importer during update)    *)
(*                                                                         *)
(* Big-step operators, one per public call; the line loop of an import is  *)
(* a fold whose step (ImportLine) is the critical section of the code:     *)
(* DeriveId -> Insert | Collide(strategy) -> link relations.               *)
(* Deviations: names of known findings whose behaviour is switched on.     *)
(***************************************************************************)
EXTENDS AttrSyntax, TLC

CONSTANT Deviations

NoCoord == -1
T_Parent == <<80, 97, 114, 101, 110, 116>>
T_gene == <<103, 101, 110, 101>>
T_transcript == <<116, 114, 97, 110, 115, 99, 114, 105, 112, 116>>
T_exon == <<101, 120, 111, 110>>
T_derived == <<103, 102, 102, 117, 116, 105, 108, 115, 95, 100, 101, 114, 105, 118, 101, 100>>   \* gffutils_derived
T_auto == <<97, 117, 116, 111, 105, 110, 99, 114, 101, 109, 101, 110, 116, 58>>                  \* autoincrement:

EmptyDB == [feats |-> <<>>, rels |-> {}, dirs |-> <<>>, ctrP |-> {}, dups |-> {}, dialect |-> DefaultDialect, nmeta |-> 0]

(***************************************************************************)
(* counters                                                                *)
(***************************************************************************)
CtrGet(ctr, b) == IF \E p \in ctr : p[1] = b THEN (CHOOSE p \in ctr : p[1] = b)[2] ELSE 0
CtrInc(ctr, b) == {p \in ctr : p[1] # b} \cup {<<b, CtrGet(ctr, b) + 1>>}
AutoId(ctr, b) == b \o <<UNDER>> \o Digits(CtrGet(ctr, b) + 1)       \* "%s_%s" % (key, n) after the increment
\* INSERT OR REPLACE of every live counter
CtrPersist(ctrP, ctrL) == {p \in ctrP : ~\E q \in ctrL : q[1] = p[1]} \cup ctrL

(***************************************************************************)
(* look-ups                                                                *)
(***************************************************************************)
Ids(db) == {db.feats[i].id : i \in 1..Len(db.feats)}
Has(db, id) == \E i \in 1..Len(db.feats) : db.feats[i].id = id
IndexOfId(db, id) == CHOOSE i \in 1..Len(db.feats) : db.feats[i].id = id
Get(db, id) == db.feats[IndexOfId(db, id)]
Field(f, name) == CASE name = "seqid" -> f.seqid [] name = "chrom" -> f.seqid [] name = "source" -> f.source [] name = "featuretype" -> f.ftype
                    [] name = "score" -> f.score [] name = "strand" -> f.strand [] name = "frame" -> f.frame
SetField(f, name, v) == CASE name = "seqid" -> [f EXCEPT !.seqid = v] [] name = "source" -> [f EXCEPT !.source = v]
                          [] name = "featuretype" -> [f EXCEPT !.ftype = v] [] name = "score" -> [f EXCEPT !.score = v]
                          [] name = "strand" -> [f EXCEPT !.strand = v] [] name = "frame" -> [f EXCEPT !.frame = v]
TextFields == {"seqid", "source", "featuretype", "score", "strand", "frame"}

(***************************************************************************)
(* C04: id derivation (create.py _id_handler)                              *)
(*  spec = [kind |-> "list", items] | [kind |-> "dict", map : Seq(<<ftype, items>>)]       *)
(*  item = [t |-> "attr", k] | [t |-> "field", name] | [t |-> "call", fn]  *)
(*  callables are a fixed menu mirrored by Python functions in the harness *)
(***************************************************************************)
CallResult(fn, f) ==          \* what the callable returns: <<>> stands for None / ""
  CASE fn = "none"  -> <<>>
    [] fn = "const" -> <<75>>                                   \* "K"
    [] fn = "auto_seqid" -> T_auto \o f.seqid                     \* "autoincrement:<seqid>"
    [] fn = "auto_colon" -> T_auto \o f.seqid \o <<58>> \o f.ftype  \* "autoincrement:<seqid>:<type>" - the base itself contains a colon
    [] fn = "name"  -> IF AttrHas(f.attrs, T_Name) /\ AttrGet(f.attrs, T_Name) # <<>> THEN AttrGet(f.attrs, T_Name)[1] ELSE <<>>
    [] fn = "type_start" -> f.ftype \o <<58>> \o IntStr(f.start)  \* "<type>:<start>"
IsPrefix(p, s) == Len(p) <= Len(s) /\ SubSeq(s, 1, Len(p)) = p

RECURSIVE TryItems(_, _, _)
\* result: [st |-> "id", id, ctr] | [st |-> "raise"] ; falls back to the per-featuretype counter
TryItems(items, f, ctr) ==
  IF items = <<>> THEN [st |-> "id", id |-> AutoId(ctr, f.ftype), ctr |-> CtrInc(ctr, f.ftype)]
  ELSE LET it == Head(items) IN
       IF it.t = "call"
       THEN LET r == CallResult(it.fn, f) IN
            IF r = <<>> THEN TryItems(Tail(items), f, ctr)
            ELSE IF IsPrefix(T_auto, r)
                 THEN LET b == SubSeq(r, 15, Len(r)) IN [st |-> "id", id |-> AutoId(ctr, b), ctr |-> CtrInc(ctr, b)]
                 ELSE [st |-> "id", id |-> r, ctr |-> ctr]
       ELSE IF it.t = "field" THEN [st |-> "id", id |-> Field(f, it.name), ctr |-> ctr]
       ELSE IF AttrHas(f.attrs, it.k) /\ Len(AttrGet(f.attrs, it.k)) > 1 THEN [st |-> "raise"]     \* several values: rejected
       ELSE IF AttrHas(f.attrs, it.k) /\ Len(AttrGet(f.attrs, it.k)) = 1 THEN [st |-> "id", id |-> AttrGet(f.attrs, it.k)[1], ctr |-> ctr]
       ELSE TryItems(Tail(items), f, ctr)

DeriveId(spec, f, ctr) ==
  IF spec.kind = "dict"
  THEN IF \E i \in 1..Len(spec.map) : spec.map[i][1] = f.ftype
       THEN TryItems(spec.map[CHOOSE i \in 1..Len(spec.map) : spec.map[i][1] = f.ftype][2], f, ctr)
       ELSE [st |-> "id", id |-> AutoId(ctr, f.ftype), ctr |-> CtrInc(ctr, f.ftype)]
  ELSE TryItems(spec.items, f, ctr)

\* declarative reading of C04 for attribute / field lists (no callables): used as an invariant
FirstPresent(items, f) ==     \* index of the first listed item that yields a value, 0 if none
  IF \E i \in 1..Len(items) : (items[i].t = "field" \/ (AttrHas(f.attrs, items[i].k) /\ AttrGet(f.attrs, items[i].k) # <<>>))
  THEN CHOOSE i \in 1..Len(items) : /\ (items[i].t = "field" \/ (AttrHas(f.attrs, items[i].k) /\ AttrGet(f.attrs, items[i].k) # <<>>))
                                    /\ \A j \in 1..(i - 1) : ~(items[j].t = "field" \/ (AttrHas(f.attrs, items[j].k) /\ AttrGet(f.attrs, items[j].k) # <<>>))
  ELSE 0

(***************************************************************************)
(* C05: collisions (create.py _do_merge, _candidate_merges, _add_duplicate)*)
(***************************************************************************)
GffCols == <<"seqid", "source", "featuretype", "start", "end", "score", "strand", "frame">>
SameCol(a, b, name) == CASE name = "start" -> a.start = b.start [] name = "end" -> a.end = b.end
                         [] OTHER -> Field(a, name) = Field(b, name)
ColsAgree(a, b, fmf) == \A i \in 1..8 : (GffCols[i] \in ToSet(fmf)) \/ SameCol(a, b, GffCols[i])

\* candidates: the feature under the key plus everything filed under it in the duplicates table
Candidates(db, key) == {db.feats[i] : i \in {j \in 1..Len(db.feats) : db.feats[j].id = key \/ <<key, db.feats[j].id>> \in db.dups}}
Matching(db, f, fmf) == {c \in Candidates(db, f.id) : ColsAgree(c, f, fmf)}

\* union of attribute values without repeats; canonical form: values sorted (the code uses list(set(v)))
SortText(sq) == StableSortIdx(sq, LAMBDA i, j : LexLess(sq[i], sq[j]))
RECURSIVE SetToSortedSeq(_)
SetToSortedSeq(S) == IF S = {} THEN <<>> ELSE LET m == CHOOSE x \in S : \A y \in S : LexLeq(x, y) IN <<m>> \o SetToSortedSeq(S \ {m})
RECURSIVE UnionInto(_, _)
UnionInto(acc, attrs) == IF attrs = <<>> THEN acc ELSE UnionInto(AttrExtend(acc, Head(attrs)[1], Head(attrs)[2]), Tail(attrs))
MergeAttrs(newcomer, existing) ==      \* keys: newcomer's first, then the existing feature's other keys
  LET u == UnionInto(newcomer, existing) IN [i \in 1..Len(u) |-> <<u[i][1], SetToSortedSeq(ToSet(u[i][2]))>>]
\* exempt columns become the comma-joined sorted set of the values seen (stored values are split again)
MergeField(old, new) == Join(SetToSortedSeq(ToSet(Split(old, <<COMMA>>)) \cup {new}), <<COMMA>>)
MergeField_Unsplit(old, new) == Join(SetToSortedSeq({old, new}), <<COMMA>>)          \* F2 as it was: "a,a,b"
RECURSIVE MergeFields(_, _, _)
MergeFields(target, f, fmf) ==
  IF fmf = <<>> THEN target
  ELSE LET nm == Head(fmf) IN
       MergeFields(SetField(target, nm, IF "F2_ForceMergeJoinsJoined" \in Deviations THEN MergeField_Unsplit(Field(target, nm), Field(f, nm))
                                        ELSE MergeField(Field(target, nm), Field(f, nm))), f, Tail(fmf))

ReplaceFeat(db, i, g) == [db EXCEPT !.feats = [db.feats EXCEPT ![i] = g]]
AppendFeat(db, g) == [db EXCEPT !.feats = Append(db.feats, g)]

(* Collision of f (already carrying its key f.id) with the stored feature under that key.
   Result [st, db, ctr, linkId]: linkId is the id the line's Parent links attach to ("" = none). *)
RECURSIVE Collide(_, _, _, _, _)
Collide(strategy, f, db, ctr, fmf) ==
  CASE strategy = "error" -> [st |-> "raise", db |-> db, ctr |-> ctr, link |-> <<>>]
    [] strategy = "warning" -> [st |-> "ok", db |-> db, ctr |-> ctr,
                                link |-> IF "F3_WarningLinksIgnoredLine" \in Deviations THEN f.id ELSE <<>>]
    [] strategy = "replace" -> [st |-> "ok", db |-> ReplaceFeat(db, IndexOfId(db, f.id), f), ctr |-> ctr, link |-> f.id]
    [] strategy = "create_unique" ->
         LET nid == AutoId(ctr, f.id) IN
         IF Has(db, nid) THEN [st |-> "raise", db |-> db, ctr |-> CtrInc(ctr, f.id), link |-> <<>>]
         ELSE [st |-> "ok", db |-> AppendFeat(db, [f EXCEPT !.id = nid]), ctr |-> CtrInc(ctr, f.id), link |-> nid]
    [] strategy = "merge" ->
         LET m == Matching(db, f, fmf) IN
         IF m = {} THEN LET r == Collide("create_unique", f, db, ctr, fmf) IN
                        IF r.st = "raise" THEN r ELSE [r EXCEPT !.db.dups = @ \cup {<<f.id, r.link>>}]
         ELSE LET tgt == CHOOSE c \in m : TRUE       \* lemma OneCandidate: m is a singleton
                  g == MergeFields([tgt EXCEPT !.attrs = MergeAttrs(f.attrs, tgt.attrs)], f, fmf)
              IN [st |-> "ok", db |-> ReplaceFeat(db, IndexOfId(db, tgt.id), g), ctr |-> ctr,
                  link |-> IF "F15_MergeLinksOriginalKey" \in Deviations THEN f.id ELSE tgt.id]
OneCandidate(db, f, fmf) == Cardinality(Matching(db, f, fmf)) <= 1

(***************************************************************************)
(* GFF3 import: one line, then the fold, then the level-2 closure          *)
(***************************************************************************)
ParentsOf(f) == IF AttrHas(f.attrs, T_Parent) THEN AttrGet(f.attrs, T_Parent) ELSE <<>>
Level1(parents, child) == {<<parents[i], child, 1>> : i \in 1..Len(parents)}

\* links of the replaced version survive (known finding F4) unless the deviation is off
ReplaceDropsOldLinks(db, id) == IF "F4_ReplaceKeepsStaleLinks" \in Deviations THEN db
                                ELSE [db EXCEPT !.rels = {r \in db.rels : ~(r[2] = id /\ r[3] = 1)}]

\* state of an import: [st, db, ctr]
GffLine(s, f0, cfg) ==
  LET dr == DeriveId(cfg.idspec, f0, s.ctr) IN
  IF dr.st = "raise" THEN [s EXCEPT !.st = "raise"]
  ELSE LET f == [f0 EXCEPT !.id = dr.id] IN
       IF ~Has(s.db, f.id)
       THEN [st |-> "ok", ctr |-> dr.ctr, db |-> [AppendFeat(s.db, f) EXCEPT !.rels = @ \cup Level1(ParentsOf(f), f.id)]]
       ELSE LET c == Collide(cfg.strategy, f, IF cfg.strategy = "replace" THEN ReplaceDropsOldLinks(s.db, f.id) ELSE s.db, dr.ctr, cfg.fmf) IN
            IF c.st = "raise" THEN [st |-> "raise", db |-> s.db, ctr |-> c.ctr]
            ELSE [st |-> "ok", ctr |-> c.ctr,
                  db |-> IF c.link = <<>> THEN c.db ELSE [c.db EXCEPT !.rels = @ \cup Level1(ParentsOf(f), c.link)]]

WithId(f) == IF "id" \in DOMAIN f THEN f ELSE ([id |-> <<>>] @@ f)
RECURSIVE GffFold(_, _, _)
GffFold(s, fs, cfg) == IF fs = <<>> \/ s.st = "raise" THEN s ELSE GffFold(GffLine(s, WithId(Head(fs)), cfg), Tail(fs), cfg)

\* level-2 relations: for every STORED feature g, every two-edge path g -> m -> c of LEVEL-1 rows
\* (INSERT OR IGNORE).  Before the repair (F6) the sub-selects had no level clause.
CloseLevel2(db) ==
  LET src == {r \in db.rels : ("F6_Level2FromAnyLevel" \in Deviations) \/ r[3] = 1}
      new == {<<r1[1], r2[2], 2>> : r1 \in {r \in src : r[1] \in Ids(db)}, r2 \in src}
  IN [db EXCEPT !.rels = @ \cup {x \in new : \E r1 \in src, r2 \in src : r1[1] = x[1] /\ r1[2] = r2[1] /\ r2[2] = x[2]}]

(***************************************************************************)
(* GTF import (create.py _GTFDBCreator)                                    *)
(*   cfg.tkey / cfg.gkey / cfg.sub : transcript key, gene key, subfeature  *)
(*   cfg.noT / cfg.noG            : disable_infer_transcripts / _genes     *)
(***************************************************************************)
FirstVal(f, k) == IF AttrHas(f.attrs, k) /\ AttrGet(f.attrs, k) # <<>> THEN AttrGet(f.attrs, k)[1] ELSE <<>>
\* relations of one GTF line attached to `cid`: (transcript, cid, 1), (gene, cid, 2), (gene, transcript, 1);
\* a feature is never related to itself (F1: explicit gene/transcript lines used to get (T,T,1), (G,G,2))
GtfLinks(f, cid, cfg) ==
  LET t == FirstVal(f, cfg.tkey)
      g == FirstVal(f, cfg.gkey)
      hasG == AttrHas(f.attrs, cfg.gkey) /\ AttrGet(f.attrs, cfg.gkey) # <<>>
      all == (IF t # <<>> THEN {<<t, cid, 1>>} ELSE {}) \cup (IF hasG THEN {<<g, cid, 2>>} ELSE {})
             \cup (IF hasG /\ t # <<>> THEN {<<g, t, 1>>} ELSE {})
  IN IF "F1_GtfSelfRelations" \in Deviations THEN all ELSE {r \in all : r[1] # r[2]}

GtfLine(s, f0, cfg) ==
  LET dr == DeriveId(cfg.idspec, f0, s.ctr) IN
  IF dr.st = "raise" THEN [s EXCEPT !.st = "raise"]
  ELSE LET f == [f0 EXCEPT !.id = dr.id] IN
       IF ~Has(s.db, f.id)
       THEN [st |-> "ok", ctr |-> dr.ctr, db |-> [AppendFeat(s.db, f) EXCEPT !.rels = @ \cup GtfLinks(f, f.id, cfg)]]
       ELSE LET c == Collide(cfg.strategy, f, s.db, dr.ctr, cfg.fmf) IN
            IF c.st = "raise" THEN [st |-> "raise", db |-> s.db, ctr |-> c.ctr]
            ELSE [st |-> "ok", ctr |-> c.ctr,
                  db |-> IF c.link = <<>> THEN c.db ELSE [c.db EXCEPT !.rels = @ \cup GtfLinks(f, c.link, cfg)]]
RECURSIVE GtfFold(_, _, _)
GtfFold(s, fs, cfg) == IF fs = <<>> \/ s.st = "raise" THEN s ELSE GtfFold(GtfLine(s, WithId(Head(fs)), cfg), Tail(fs), cfg)

\* stored subfeatures that are children (any level) of p
SubChildren(db, p, cfg) == {db.feats[i] : i \in {j \in 1..Len(db.feats) : db.feats[j].ftype = cfg.sub /\ \E l \in 1..3 : <<p, db.feats[j].id, l>> \in db.rels}}
MinStart(S) == CHOOSE x \in {f.start : f \in S} : \A y \in {f.start : f \in S} : x <= y
MaxEnd(S) == CHOOSE x \in {f.end : f \in S} : \A y \in {f.end : f \in S} : x >= y
\* (transcript, gene) pairs: level-1 parents of stored subfeatures, joined with their own level-1 parent
TGPairs(db, cfg) ==
  {<<t, g>> \in {<<r[2], r[1]>> : r \in {x \in db.rels : x[3] = 1}} :
      \E i \in 1..Len(db.feats) : db.feats[i].ftype = cfg.sub /\ <<t, db.feats[i].id, 1>> \in db.rels}
Derived(db, id, ftype, attrs, cfg) ==
  LET S == SubChildren(db, id, cfg)  any == CHOOSE f \in S : TRUE IN
  [id |-> <<>>, seqid |-> any.seqid, source |-> T_derived, ftype |-> ftype, start |-> MinStart(S), end |-> MaxEnd(S),
   score |-> <<DOT>>, strand |-> any.strand, frame |-> <<DOT>>, attrs |-> attrs, extra |-> <<>>]

\* insert one derived feature: a collision goes through Collide("merge"); when nothing matches, the
\* uniquified copy is recorded in duplicates but NOT stored (the code only issues an UPDATE)
DerivedInsert(s, d, cfg) ==
  LET dr == DeriveId(cfg.idspec, d, s.ctr) IN
  IF dr.st = "raise" THEN [s EXCEPT !.st = "raise"]
  ELSE LET f == [d EXCEPT !.id = dr.id] IN
       IF ~Has(s.db, f.id) THEN [st |-> "ok", ctr |-> dr.ctr, db |-> AppendFeat(s.db, f)]
       ELSE LET m == Matching(s.db, f, cfg.fmf) IN
            IF m = {} THEN [st |-> "ok", ctr |-> CtrInc(dr.ctr, f.id), db |-> [s.db EXCEPT !.dups = @ \cup {<<f.id, AutoId(dr.ctr, f.id)>>}]]
            ELSE LET tgt == CHOOSE c \in m : TRUE IN
                 [st |-> "ok", ctr |-> dr.ctr,
                  db |-> ReplaceFeat(s.db, IndexOfId(s.db, tgt.id), [tgt EXCEPT !.attrs = MergeAttrs(f.attrs, tgt.attrs)])]
RECURSIVE DerivedFold(_, _, _)
DerivedFold(s, ds, cfg) == IF ds = <<>> \/ s.st = "raise" THEN s ELSE DerivedFold(DerivedInsert(s, Head(ds), cfg), Tail(ds), cfg)

\* pairs ordered by gene id (ORDER BY relations.parent); transcripts of one gene in unspecified order -> sorted too
PairLess(p, q) == LexLess(p[2], q[2]) \/ (p[2] = q[2] /\ LexLess(p[1], q[1]))
RECURSIVE SortedPairs(_)
SortedPairs(S) == IF S = {} THEN <<>> ELSE LET m == CHOOSE x \in S : \A y \in S : x = y \/ PairLess(x, y) IN <<m>> \o SortedPairs(S \ {m})
InferGTF(s, cfg) ==
  IF cfg.noT /\ cfg.noG THEN s
  ELSE LET ps == SortedPairs(TGPairs(s.db, cfg))
           ds == FlatSeq([i \in 1..Len(ps) |->
                    (IF cfg.noT THEN <<>> ELSE <<Derived(s.db, ps[i][1], T_transcript, <<<<cfg.tkey, <<ps[i][1]>>>>, <<cfg.gkey, <<ps[i][2]>>>>>>, cfg)>>)
                    \o (IF cfg.noG \/ (i > 1 /\ ps[i - 1][2] = ps[i][2]) THEN <<>>
                        ELSE <<Derived(s.db, ps[i][2], T_gene, <<<<cfg.gkey, <<ps[i][2]>>>>>>, cfg)>>)])
       IN DerivedFold(s, ds, cfg)

(***************************************************************************)
(* public calls                                                            *)
(***************************************************************************)
Finalize(db, dirs, dialect, ctrL) ==
  [db EXCEPT !.dirs = @ \o dirs, !.nmeta = @ + 1, !.dialect = IF db.nmeta = 0 THEN dialect ELSE @, !.ctrP = CtrPersist(@, ctrL)]

ImportInto(db, ctr, fs, cfg) ==
  IF cfg.importer = "gtf" THEN LET s == GtfFold([st |-> "ok", db |-> db, ctr |-> ctr], fs, cfg) IN
                               IF s.st = "raise" THEN s ELSE InferGTF(s, cfg)
  ELSE LET s == GffFold([st |-> "ok", db |-> db, ctr |-> ctr], fs, cfg) IN
       IF s.st = "raise" THEN s ELSE [s EXCEPT !.db = CloseLevel2(s.db)]

\* id_spec not given: the default of the importer that is used ("ID" / {gene: gene_id, transcript: transcript_id})
DefaultSpec(importer, cfg) == IF importer = "gtf"
   THEN [kind |-> "dict", map |-> <<<<T_gene, <<[t |-> "attr", k |-> cfg.gkey]>>>>, <<T_transcript, <<[t |-> "attr", k |-> cfg.tkey]>>>>>>]
   ELSE [kind |-> "list", items |-> <<[t |-> "attr", k |-> T_ID]>>]
Resolve(cfg, importer) == [cfg EXCEPT !.importer = importer, !.idspec = IF cfg.idspec.kind = "default" THEN DefaultSpec(importer, cfg) ELSE cfg.idspec]
\* create_db on a fresh file; the handle's live counters are what was persisted
Create(fs, dirs, dialect, cfg0) ==
  IF fs = <<>> THEN [st |-> "raise", db |-> EmptyDB, ctr |-> {}]
  ELSE LET cfg == Resolve(cfg0, cfg0.importer)
           s == ImportInto(EmptyDB, {}, fs, cfg) IN
       IF s.st = "raise" THEN s
       ELSE LET db == Finalize(s.db, dirs, dialect, s.ctr) IN [st |-> "ok", db |-> db, ctr |-> db.ctrP]

\* FeatureDB.update: identity on an empty source; the importer is chosen by the DATABASE's dialect
Update(db, ctrL, fs, cfg) ==
  IF fs = <<>> THEN [st |-> "ok", db |-> db, ctr |-> ctrL]
  ELSE LET s == ImportInto(db, ctrL, fs, Resolve(cfg, IF db.dialect.fmt = "gtf" THEN "gtf" ELSE "gff3")) IN
       IF s.st = "raise" THEN s
       ELSE [st |-> "ok", db |-> Finalize(s.db, <<>>, db.dialect, s.ctr), ctr |-> s.ctr]

Delete(db, ids) == [db EXCEPT !.feats = SelectSeq(@, LAMBDA f : f.id \notin ids),
                             !.rels = {r \in @ : r[1] \notin ids /\ r[2] \notin ids}]

\* add_relation(parent, child, level[, child_func=assign_child])
AddRel(db, p, c, l, rewrite) ==
  IF ~Has(db, p) \/ ~Has(db, c) THEN [st |-> "notfound", db |-> db]
  ELSE IF <<p, c, l>> \in db.rels THEN [st |-> "raise", db |-> db]
  ELSE IF rewrite /\ ~AttrHas(Get(db, p).attrs, T_ID) THEN [st |-> "raise", db |-> db]
  ELSE LET db1 == [db EXCEPT !.rels = @ \cup {<<p, c, l>>}] IN
       [st |-> "ok", db |-> IF rewrite THEN ReplaceFeat(db1, IndexOfId(db1, c), [Get(db1, c) EXCEPT !.attrs = AttrSet(@, T_Parent, AttrGet(Get(db, p).attrs, T_ID))]) ELSE db1]

Reopen(db) == db.ctrP          \* the new handle's live counters

(***************************************************************************)
(* C02 / C10 declarative reference                                         *)
(***************************************************************************)
Children(db, x, l) == {r[2] : r \in {q \in db.rels : q[1] = x /\ (l = 0 \/ q[3] = l)}} \cap Ids(db)
Parents(db, x, l)  == {r[1] : r \in {q \in db.rels : q[2] = x /\ (l = 0 \/ q[3] = l)}} \cap Ids(db)
\* the Parent graph of what is stored
Rel1_Decl(db) == UNION {Level1(ParentsOf(db.feats[i]), db.feats[i].id) : i \in 1..Len(db.feats)}
Rel2_Decl(db) == LET R1 == Rel1_Decl(db) IN
  {x \in {<<g, r[2], 2>> : g \in Ids(db), r \in R1} : \E m \in {r[2] : r \in R1} : <<x[1], m, 1>> \in R1 /\ <<m, x[2], 1>> \in R1}

\* a plain GFF3 feature for models: id (may be <<>> = no ID attribute), type, parents, extra attributes
MkF(id, ftype, parents, more) ==
  [seqid |-> <<99, 104, 114, 49>>, source |-> <<115>>, ftype |-> ftype, start |-> 1, end |-> 9, score |-> <<DOT>>, strand |-> <<43>>,
   frame |-> <<DOT>>, extra |-> <<>>,
   attrs |-> (IF id = <<>> THEN <<>> ELSE <<<<T_ID, <<id>>>>>>) \o (IF parents = <<>> THEN <<>> ELSE <<<<T_Parent, parents>>>>) \o more]
DefaultCfg == [idspec |-> [kind |-> "list", items |-> <<[t |-> "attr", k |-> T_ID]>>], strategy |-> "error", fmf |-> <<>>, importer |-> "gff3",
               tkey |-> T_transcript_id, gkey |-> T_gene_id, sub |-> T_exon, noT |-> FALSE, noG |-> FALSE]

\* the GFF3 line of a feature in the default dialect (what the harness writes to the input file)
ColsOf(f) == <<f.seqid, f.source, f.ftype, IF f.start = NoCoord THEN <<DOT>> ELSE IntStr(f.start), IF f.end = NoCoord THEN <<DOT>> ELSE IntStr(f.end),
               f.score, f.strand, f.frame>>
LineText(f, d) == ToLine([cols |-> ColsOf(f), attrs |-> f.attrs, extra |-> f.extra, d |-> d], TRUE, FALSE)

\* what judges and generators print of a database / of the result of a call
Proj(db) == [feats |-> db.feats, rels |-> db.rels, ctr |-> db.ctrP, dups |-> db.dups, dirs |-> db.dirs, nmeta |-> db.nmeta]
Snap(st, db, ctr) == [st |-> st, db |-> Proj(db), ctrL |-> ctr]

\* canonical projection used by judges: attribute keys and values as sorted sequences
CanonAttrs(a) == LET ks == SortText(AttrKeys(a)) IN [i \in 1..Len(ks) |-> <<ks[i], SortText(AttrGet(a, ks[i]))>>]
=============================================================================
