------------------------------ MODULE MC_DB02 ------------------------------
(* C02: every Parent graph on <= 4 features a,b,c,d (parents among earlier features and a
   dangling name z: multi-parent, shared children, depth up to 4), every permutation of the
   lines.  Invariant: the stored relations are exactly Rel1 \cup Rel2 of the declarative layer,
   children/parents are inverse, nothing is its own relative, no phantom.                       *)
EXTENDS GffDB, Json
CONSTANT NN
Name(i) == <<96 + i>>           \* a, b, c, d
Z == <<122>>
TypeOf(i) == IF i = 1 THEN T_gene ELSE IF i = 2 THEN <<109, 82, 78, 65>> ELSE T_exon
PermsOf(n) == {p \in [1..n -> 1..n] : \A i, j \in 1..n : i # j => p[i] # p[j]}
ParentChoices(i) == SUBSET ({Name(j) : j \in 1..(i - 1)} \cup {Z})

VARIABLES par, perm, done, DB
Init == par \in [1..NN -> SUBSET ({Name(j) : j \in 1..NN} \cup {Z})] /\ (\A i \in 1..NN : par[i] \in ParentChoices(i))
        /\ perm = <<>> /\ done = FALSE /\ DB = EmptyDB
Lines(pr, pm) == [k \in 1..NN |-> MkF(Name(pm[k]), TypeOf(pm[k]), SetToSortedSeq(pr[pm[k]]), <<>>)]
CreateOf(pr, pm) == Create(Lines(pr, pm), <<>>, DefaultDialect, DefaultCfg)
DBof(pr, pm) == CreateOf(pr, pm).db
\* an update with one unrelated feature must leave every relation as it was (the closure is recomputed from level-1 rows only)
Unrelated == <<MkF(<<117>>, T_gene, <<>>, <<>>)>>
AfterUpdate(pr, pm) == LET c == CreateOf(pr, pm) IN Update(c.db, c.ctr, Unrelated, DefaultCfg).db
AllNames == {Name(j) : j \in 1..NN} \cup {Z}
Rec(pr, pm, db) ==
  [lines |-> [k \in 1..NN |-> [id |-> Name(pm[k]), ftype |-> TypeOf(pm[k]), parents |-> SetToSortedSeq(pr[pm[k]]),
                                  text |-> LineText(Lines(pr, pm)[k], DefaultDialect)]],
   rels |-> db.rels,
   relsAfterUpdate |-> AfterUpdate(pr, pm).rels,
   kidsExon |-> {[x |-> x, ids |-> {c \in Children(db, x, 0) : Get(db, c).ftype = T_exon}] : x \in AllNames},
   kids |-> {[x |-> x, l |-> l, ids |-> Children(db, x, l)] : x \in AllNames, l \in 0..2},
   pars |-> {[x |-> x, l |-> l, ids |-> Parents(db, x, l)] : x \in AllNames, l \in 0..2}]
Next == /\ ~done /\ done' = TRUE /\ par' = par /\ perm' \in PermsOf(NN)
        /\ DB' = DBof(par, perm')
        /\ PrintT(ToJson(Rec(par, perm', DB')))
\* BlockCompose: importing a file followed by a renamed copy of it (ids and Parent values suffixed, incl. the dangling name) gives the
\* database of the file followed by its renamed copy - blocks with disjoint names do not interact.  This is what lets the conformance step
\* scale the model's answers to files of thousands of lines (c02 "scaled forest").
Ren(t) == t \o <<95, 50>>                       \* x -> x_2
RenF(f) == [f EXCEPT !.attrs = [i \in 1..Len(f.attrs) |-> <<f.attrs[i][1], IF f.attrs[i][1] \in {T_ID, T_Parent} THEN [j \in 1..Len(f.attrs[i][2]) |-> Ren(f.attrs[i][2][j])] ELSE f.attrs[i][2]>>]]
RenStored(f) == [RenF(f) EXCEPT !.id = Ren(f.id)]
InvBlockCompose == done =>
   LET ls == Lines(par, perm)
       two == Create(ls \o [k \in 1..Len(ls) |-> RenF(ls[k])], <<>>, DefaultDialect, DefaultCfg).db IN
   /\ two.rels = DB.rels \cup {<<Ren(r[1]), Ren(r[2]), r[3]>> : r \in DB.rels}
   /\ two.feats = DB.feats \o [k \in 1..Len(DB.feats) |-> RenStored(DB.feats[k])]
InvRels    == done => DB.rels = Rel1_Decl(DB) \cup Rel2_Decl(DB)
InvInverse == done => \A x \in Ids(DB), y \in Ids(DB), l \in 0..2 : (y \in Children(DB, x, l)) <=> (x \in Parents(DB, y, l))
InvUpdateKeeps == done => AfterUpdate(par, perm).rels = DB.rels
InvNoSelf  == done => \A x \in AllNames : x \notin Children(DB, x, 0) /\ x \notin Parents(DB, x, 0)
InvStored  == done => \A x \in AllNames : Children(DB, x, 0) \subseteq Ids(DB) /\ Z \notin Ids(DB) /\ Len(DB.feats) = NN
\* children(x, 1) are exactly the stored features naming x in Parent; children(x, 2) the level-1 children of those
InvLevels  == done => \A x \in AllNames :
                 /\ Children(DB, x, 1) = {f.id : f \in {DB.feats[i] : i \in 1..NN}} \cap {c \in Ids(DB) : Contains(ParentsOf(Get(DB, c)), x)}
                 /\ (x \in Ids(DB) => Children(DB, x, 2) = UNION {Children(DB, m, 1) : m \in Children(DB, x, 1)})
                 /\ Children(DB, x, 0) = Children(DB, x, 1) \cup Children(DB, x, 2)
=============================================================================
