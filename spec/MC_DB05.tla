------------------------------ MODULE MC_DB05 ------------------------------
(* C05: sequences of 1..MaxArr features that all map to the key K (after two parent features p1,
   p2), every merge strategy, force_merge_fields in {none, source, source+strand}, arriving in one
   create_db or split between create_db and update.  The declarative invariants restate each
   strategy from the ARRIVALS (sets, classes), independently of the incremental algorithm.       *)
EXTENDS GffDB, Json
CONSTANT MaxArr, Wide, Quick, PrintMod, Importer      \* Importer "gff3" | "gtf"
K == <<75>>  P1 == <<112, 49>>  P2 == <<112, 50>>  TN == <<110>>
Src2 == <<116>>    \* source "t" (default source is "s")
\* arrival options: column vector x attribute n x Parent
Vecs == IF Wide THEN {"A", "B", "As", "At"} ELSE {"A", "B", "As"}
Pars == IF Wide THEN {<<>>, <<P1>>, <<P2>>} ELSE {<<>>, <<P1>>, <<P2>>}
Arr(v, n, p) == LET f == IF Importer = "gtf"
                         THEN [MkF(<<>>, T_gene, <<>>, <<>>) EXCEPT !.attrs = <<<<T_gene_id, <<K>>>>, <<TN, <<n>>>>>> \o (IF p = <<>> THEN <<>> ELSE <<<<<<120>>, p>>>>)]
                         ELSE MkF(K, T_exon, p, <<<<TN, <<n>>>>>>) IN
                CASE v = "A" -> f [] v = "B" -> [f EXCEPT !.start = 2] [] v = "As" -> [f EXCEPT !.source = Src2] [] v = "At" -> [f EXCEPT !.strand = <<45>>]
Options == {Arr(v, n, p) : v \in Vecs, n \in {<<49>>, <<50>>}, p \in Pars}
Strategies == {"error", "warning", "replace", "create_unique", "merge"}
Fmfs == IF Quick THEN {<<>>, <<"source">>} ELSE {<<>>, <<"source">>, <<"source", "strand">>}
Parents2 == IF Importer = "gtf"
            THEN <<[MkF(<<>>, T_gene, <<>>, <<>>) EXCEPT !.attrs = <<<<T_gene_id, <<P1>>>>>>], [MkF(<<>>, T_gene, <<>>, <<>>) EXCEPT !.attrs = <<<<T_gene_id, <<P2>>>>>>]>>
            ELSE <<MkF(P1, T_gene, <<>>, <<>>), MkF(P2, T_gene, <<>>, <<>>)>>

\* a cheap spread of the cases: only one in PrintMod is printed for replay (all are model-checked)
CaseHash(as, k, m) == SumSeq([i \in 1..Len(as) |-> (as[i].start * 3 + Len(ParentsOf(as[i])) * 5 + Len(as[i].source) + as[i].attrs[2][2][1][1] + (IF ParentsOf(as[i]) = <<P2>> THEN 2 ELSE 0)) * (i + 1)]) + k * 11 + Len(m) * 13
VARIABLES arrs, strat, fmf, split, res, done
Init == arrs \in UNION {[1..n -> Options] : n \in 1..(MaxArr - 1)} /\ strat = "" /\ fmf = <<>> /\ split = 0
        /\ res = [st |-> "none"] /\ done = FALSE
GtfDialect5 == [DefaultDialect EXCEPT !.fmt = "gtf", !.kvsep = <<SP>>, !.fsep = <<SEMI, SP>>, !.quoted = TRUE, !.trail = TRUE]
FileDialect5 == IF Importer = "gtf" THEN GtfDialect5 ELSE DefaultDialect
Cfg(s, m) == [DefaultCfg EXCEPT !.strategy = s, !.fmf = m, !.importer = Importer, !.idspec = [kind |-> "default"]]
\* split = 0: everything in create_db; split = k: the first k arrivals in create_db, the rest in one update
Outcome(as, s, m, k) ==
  IF k = 0 THEN Create(Parents2 \o as, <<>>, FileDialect5, Cfg(s, m))
  ELSE LET c == Create(Parents2 \o SubSeq(as, 1, k), <<>>, FileDialect5, Cfg(s, m)) IN
       IF c.st = "raise" THEN c ELSE Update(c.db, c.ctr, SubSeq(as, k + 1, Len(as)), Cfg(s, m))
Next == /\ ~done /\ done' = TRUE
        /\ \E last \in Options : arrs' = Append(arrs, last)
        /\ strat' \in Strategies /\ fmf' \in Fmfs
        /\ split' \in 0..(Len(arrs') - 1)
        /\ res' = Outcome(arrs', strat', fmf', split')
        /\ (CaseHash(arrs', split', fmf') % PrintMod # 0) \/ PrintT(ToJson([arrs |-> arrs', parents |-> Parents2, cfg |-> Cfg(strat', fmf'), split |-> split', snap |-> Snap(res'.st, res'.db, res'.ctr)]))

OK == done /\ res.st = "ok"
N == Len(arrs)
DBF == res.db
KId(r) == IF r = 0 THEN K ELSE K \o <<UNDER>> \o Digits(r)
SameBut(f, g) == [f EXCEPT !.id = <<>>, !.attrs = CanonAttrs(f.attrs)] = [g EXCEPT !.id = <<>>, !.attrs = CanonAttrs(g.attrs)]

\* only a split import can collide in its first phase already (create_db with 'error')
InvError == (done /\ strat = "error" /\ N >= 2) => res.st = "raise"
InvNoRaise == (done /\ strat # "error") => res.st = "ok"
\* the two parent features are never touched; nothing else than K, K_n appears
InvParentsKept == OK => Has(DBF, P1) /\ Has(DBF, P2) /\ SameBut(Get(DBF, P1), WithId(Parents2[1])) /\ SameBut(Get(DBF, P2), WithId(Parents2[2]))
InvWarning == (OK /\ strat = "warning") => Len(DBF.feats) = 3 /\ SameBut(Get(DBF, K), WithId(arrs[1]))
InvReplace == (OK /\ strat = "replace") => Len(DBF.feats) = 3 /\ SameBut(Get(DBF, K), WithId(arrs[N]))
InvUnique  == (OK /\ strat = "create_unique") => Len(DBF.feats) = N + 2 /\ \A i \in 1..N : Has(DBF, KId(i - 1)) /\ SameBut(Get(DBF, KId(i - 1)), WithId(arrs[i]))
\* merge: classes of arrivals with equal non-exempt columns, in order of first arrival
VecOf(f) == [i \in 1..8 |-> IF GffCols[i] \in ToSet(fmf) THEN <<>> ELSE
                            IF GffCols[i] = "start" THEN <<f.start>> ELSE IF GffCols[i] = "end" THEN <<f.end>> ELSE Field(f, GffCols[i])]
FirstOfClass(i) == CHOOSE j \in 1..i : VecOf(arrs[j]) = VecOf(arrs[i]) /\ \A h \in 1..(j - 1) : VecOf(arrs[h]) # VecOf(arrs[i])
Reps == {i \in 1..N : FirstOfClass(i) = i}
RankOf(i) == Cardinality({j \in Reps : j < i})         \* 0 for the first class
Members(rep) == {i \in 1..N : FirstOfClass(i) = rep}
UnionVals(rep, k) == UNION {ToSet(AttrGet(arrs[i].attrs, k)) : i \in {m \in Members(rep) : AttrHas(arrs[m].attrs, k)}}
UnionKeys(rep) == UNION {ToSet(AttrKeys(arrs[i].attrs)) : i \in Members(rep)}
InvMerge == (OK /\ strat = "merge") =>
   /\ Len(DBF.feats) = Cardinality(Reps) + 2
   /\ \A rep \in Reps :
        LET id == KId(RankOf(rep))  g == Get(DBF, id) IN
        /\ Has(DBF, id)
        /\ ToSet(AttrKeys(g.attrs)) = UnionKeys(rep)
        /\ \A k \in UnionKeys(rep) : ToSet(AttrGet(g.attrs, k)) = UnionVals(rep, k) /\ NoDup(AttrGet(g.attrs, k))
        /\ \A c \in 1..8 : IF GffCols[c] \in ToSet(fmf)
                           THEN Field(g, GffCols[c]) = Join(SetToSortedSeq({Field(arrs[i], GffCols[c]) : i \in Members(rep)}), <<COMMA>>)
                           ELSE SameCol(g, arrs[rep], GffCols[c])
\* no Parent link lost or invented: level-1 relations are exactly the Parent values of what is kept
InvLinks == (OK /\ strat # "replace" /\ Importer = "gff3") => {r \in DBF.rels : r[3] = 1} = Rel1_Decl(DBF)
\* 'replace' keeps the links of replaced versions (known finding F4): with the deviation off this holds too
InvLinksReplace == (OK /\ strat = "replace" /\ Importer = "gff3" /\ "F4_ReplaceKeepsStaleLinks" \notin Deviations) => {r \in DBF.rels : r[3] = 1} = Rel1_Decl(DBF)
\* (used with a deviation switched on: TLC must then report this invariant as violated)
InvLinksAll == (OK /\ Importer = "gff3") => {r \in DBF.rels : r[3] = 1} = Rel1_Decl(DBF)
InvGtfRels == (OK /\ Importer = "gtf") => \A r \in DBF.rels : r[1] # r[2] /\ r[3] = 2 /\ r[1] = K /\ IsPrefix(K \o <<UNDER>>, r[2])
\* the design lemma the code relies on silently: at most one merge candidate matches
InvOneCandidate == (OK /\ strat = "merge") => \A f \in Options : OneCandidate(DBF, WithId(f), fmf)
=============================================================================
