------------------------------ MODULE MC_DB04 ------------------------------
(* C04: primary keys.  1..3 features, each of type gene/exon with ID and Name attributes carrying
   0, 1 or 2 values (or absent), x 16 id_spec forms.  Invariants state C04 on the result of the
   import; each case is printed with the expected database for replay on the code.              *)
EXTENDS GffDB, Json
CONSTANT NF
VA == <<97>>  VB == <<65>>          \* "a" and "A": keys that differ only in letter case are different keys
AttrChoices == {<<>>, <<<<>>>>, <<VA>>, <<VB>>, <<VA, VB>>}       \* absent / no value / one value / two values
\* (ID choice, Name choice): <<>> = attribute absent, <<<<>>>> is "present without value"
MkAttrs(idc, nmc) == (IF idc = <<>> THEN <<>> ELSE <<<<T_ID, IF idc = <<<<>>>> THEN <<>> ELSE idc>>>>)
                     \o (IF nmc = <<>> THEN <<>> ELSE <<<<T_Name, IF nmc = <<<<>>>> THEN <<>> ELSE nmc>>>>)
Feat(ft, idc, nmc) == [MkF(<<>>, ft, <<>>, <<>>) EXCEPT !.attrs = MkAttrs(idc, nmc)]
A(k) == [t |-> "attr", k |-> k]
Specs == << [kind |-> "list", items |-> <<A(T_ID)>>],
            [kind |-> "list", items |-> <<A(T_Name)>>],
            [kind |-> "list", items |-> <<A(T_ID), A(T_Name)>>],
            [kind |-> "list", items |-> <<A(T_Name), A(T_ID)>>],
            [kind |-> "dict", map |-> <<<<T_gene, <<A(T_ID)>>>>>>],
            [kind |-> "dict", map |-> <<<<T_gene, <<A(T_Name), A(T_ID)>>>>, <<T_exon, <<A(T_ID)>>>>>>],
            [kind |-> "list", items |-> <<[t |-> "field", name |-> "seqid"]>>],
            [kind |-> "list", items |-> <<A(T_ID), [t |-> "field", name |-> "source"]>>],
            [kind |-> "list", items |-> <<[t |-> "call", fn |-> "none"]>>],
            [kind |-> "list", items |-> <<[t |-> "call", fn |-> "const"]>>],
            [kind |-> "list", items |-> <<[t |-> "call", fn |-> "auto_seqid"]>>],
            [kind |-> "list", items |-> <<[t |-> "call", fn |-> "name"]>>],
            [kind |-> "list", items |-> <<[t |-> "call", fn |-> "none"], A(T_ID)>> ],
            \* the same meanings handed over in other argument forms (seqform is read by the harness only): tuples instead of lists, one-item tuples
            [kind |-> "dict", seqform |-> "tuple", map |-> <<<<T_gene, <<A(T_Name), A(T_ID)>>>>, <<T_exon, <<A(T_ID)>>>>>>],
            [kind |-> "list", seqform |-> "tuple", items |-> <<A(T_Name), A(T_ID)>>],
            [kind |-> "list", seqform |-> "tuple", items |-> <<A(T_ID)>>],
            [kind |-> "list", items |-> <<[t |-> "call", fn |-> "auto_colon"]>>],
            [kind |-> "list", items |-> <<[t |-> "field", name |-> "chrom"]>>] >>                       \* ':chrom:' - the Feature's alias of seqid

VARIABLES fs, sp, res, done
OneFeat == {Feat(ft, i, n) : ft \in {T_gene, T_exon}, i \in AttrChoices, n \in {<<>>, <<VA>>, <<VA, VB>>}}
Init == fs \in UNION {[1..n -> OneFeat] : n \in 1..(NF - 1)} /\ sp = 0 /\ res = [st |-> "none"] /\ done = FALSE
Cfg(k) == [DefaultCfg EXCEPT !.idspec = Specs[k], !.strategy = "create_unique"]
Next == /\ ~done /\ done' = TRUE
        /\ \E last \in OneFeat \cup {<<>>} : fs' = IF last = <<>> THEN fs ELSE Append(fs, last)
        /\ sp' \in 1..Len(Specs)
        /\ res' = Create(fs', <<>>, DefaultDialect, Cfg(sp'))
        /\ PrintT(ToJson([feats |-> fs', spec |-> sp', cfg |-> Cfg(sp'), snap |-> Snap(res'.st, res'.db, res'.ctr),
                          texts |-> [i \in 1..Len(fs') |-> LineText(WithId(fs'[i]), DefaultDialect)]]))

OK == done /\ res.st = "ok"
Stored == res.db.feats
\* keys are unique and every input line is stored
InvUnique == OK => NoDup([i \in 1..Len(Stored) |-> Stored[i].id]) /\ Len(Stored) = Len(fs)
\* an id attribute (the first listed one that is present) carrying several values is rejected
MultiValued(f, items) == \E i \in 1..Len(items) : items[i].t = "attr" /\ AttrHas(f.attrs, items[i].k) /\ Len(AttrGet(f.attrs, items[i].k)) > 1
                            /\ \A j \in 1..(i - 1) : items[j].t = "attr" /\ ~(AttrHas(f.attrs, items[j].k) /\ AttrGet(f.attrs, items[j].k) # <<>>)
InvReject == (done /\ Specs[sp].kind = "list" /\ \E i \in 1..Len(fs) : MultiValued(fs[i], Specs[sp].items)) => res.st = "raise"
\* attribute / field lists: the key is the value of the first listed item that is present, '<key>_n' for later duplicates
BaseKey(f, items, n) == LET i == FirstPresent(items, f) IN
   IF i = 0 THEN <<>> ELSE IF items[i].t = "field" THEN Field(f, items[i].name) ELSE AttrGet(f.attrs, items[i].k)[1]
PlainList == Specs[sp].kind = "list" /\ \A i \in 1..Len(Specs[sp].items) : Specs[sp].items[i].t # "call"
InvFirstPresent == (OK /\ PlainList) => \A i \in 1..Len(fs) :
   LET b == BaseKey(fs[i], Specs[sp].items, i) IN
   IF b = <<>> THEN IsPrefix(fs[i].ftype \o <<UNDER>>, Stored[i].id)                 \* '<featuretype>_<n>'
   ELSE Stored[i].id = b \/ IsPrefix(b \o <<UNDER>>, Stored[i].id)                    \* later duplicates: '<key>_n'
\* '<featuretype>_<n>' counts 1, 2, ... per featuretype in input order
AutoIdx(i) == Cardinality({j \in 1..i : fs[j].ftype = fs[i].ftype /\ BaseKey(fs[j], Specs[sp].items, j) = <<>>})
InvNumbering == (OK /\ PlainList) => \A i \in 1..Len(fs) :
   BaseKey(fs[i], Specs[sp].items, i) = <<>> => Stored[i].id = fs[i].ftype \o <<UNDER>> \o Digits(AutoIdx(i))
\* the persisted counters are exactly what was handed out
InvCounters == OK => res.db.ctrP = res.ctr
=============================================================================
