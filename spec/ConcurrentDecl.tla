--------------------------- MODULE ConcurrentDecl ---------------------------
(***************************************************************************)
(* C20, declarative layer: what the statement demands of ANY importer      *)
(* protocol, whatever number of intermediate files it uses (none, one as   *)
(* the present code - see Concurrent.tla -, several) and however often it  *)
(* opens them.  A run is a sequence of events                              *)
(*    [p, ev \in {mk, wr, rd, rm, done, crashed}, name, listing, content,  *)
(*     outok]                                                              *)
(* at the boundary between a process and the shared temporary directory.   *)
(*                                                                         *)
(*  "each produce exactly the database a solitary run produces"            *)
(*      - no process ever creates, truncates, reads or removes a file that *)
(*        another process created (FreshName, OwnFileOnly),                *)
(*      - what a process reads back is what it reads in a solitary run     *)
(*        (Isolation: k-th read = k-th read of the solitary run),          *)
(*      - its output equals the solitary output (outok at done);           *)
(*  "when they finish the temporary directory holds no intermediate file   *)
(*   of theirs"  - at done the process owns no file; at the end the        *)
(*   directory is empty (Cleanup).                                         *)
(* D = [tmp : name -> owner, reads : p -> number of read-backs so far,     *)
(*      fin : p -> finished].  Verdicts are total: DStep returns the first *)
(* failing clause.                                                         *)
(***************************************************************************)
EXTENDS Integers, FiniteSets, Sequences, TLC
DToSet(sq) == {sq[i] : i \in 1..Len(sq)}
D0(procs) == [tmp |-> [n \in {} |-> 0], reads |-> [p \in procs |-> 0], fin |-> [p \in procs |-> FALSE]]
DOwn(d, p) == {n \in DOMAIN d.tmp : d.tmp[n] = p}
DPut(d, n, p) == [x \in DOMAIN d.tmp \cup {n} |-> IF x = n THEN p ELSE d.tmp[x]]
DDel(d, n) == [x \in DOMAIN d.tmp \ {n} |-> d.tmp[x]]
Rej(d, c) == [ok |-> FALSE, d |-> d, clause |-> c]
Acc(d) == [ok |-> TRUE, d |-> d, clause |-> ""]
\* gated : the listing was taken while the step was pending (exactly one process runs at a time), so it must equal the model's directory
\* solo   : sequence of the contents the process reads back in a solitary run
DStep(d, e, gated, solo) ==
  LET p == e.p
      n == e.name
      listed == (~gated) \/ DToSet(e.listing) = DOMAIN d.tmp
      mine == n \in DOMAIN d.tmp /\ d.tmp[n] = p
      foreign == n \in DOMAIN d.tmp /\ d.tmp[n] # p
  IN IF e.ev = "crashed" THEN Rej(d, "process_crashed")
     ELSE IF d.fin[p] THEN Rej(d, "event_after_done")
     ELSE IF ~listed THEN Rej(d, "listing_before_" \o e.ev)
     ELSE CASE e.ev = "mk" ->      \* exclusive creation: the name must be new
                 IF n \in DOMAIN d.tmp THEN Rej(d, "mk_not_enabled_or_name_not_fresh") ELSE Acc([d EXCEPT !.tmp = DPut(d, n, p)])
            [] e.ev = "wr" ->      \* open for writing: own file, or a creation by name (then the name must be free)
                 IF foreign THEN Rej(d, "wr_foreign_file") ELSE Acc([d EXCEPT !.tmp = DPut(d, n, p)])
            [] e.ev = "rd" ->
                 IF foreign THEN Rej(d, "rd_foreign_file")
                 ELSE IF ~mine THEN Rej(d, "rd_missing_file")
                 ELSE LET k == d.reads[p] + 1 IN
                      IF k > Len(solo) THEN Rej(d, "rd_beyond_solitary_run")
                      ELSE IF e.content # solo[k] THEN Rej(d, "isolation_content_differs_from_solitary_run")
                      ELSE Acc([d EXCEPT !.reads[p] = k])
            [] e.ev = "rm" ->
                 IF foreign THEN Rej(d, "rm_foreign_file")
                 ELSE IF ~mine THEN Rej(d, "rm_missing_file")
                 ELSE Acc([d EXCEPT !.tmp = DDel(d, n)])
            [] e.ev = "done" ->
                 IF DOwn(d, p) # {} THEN Rej(d, "finished_without_removing_its_file")
                 ELSE IF ~e.outok THEN Rej(d, "output_differs_from_solitary_run")
                 ELSE Acc([d EXCEPT !.fin[p] = TRUE])
            [] OTHER -> Rej(d, "unknown_event")
\* t = [np, gated, solo : <<per process: <<contents>> >>, final : listing after all runs, events]
RECURSIVE DWalk(_, _, _)
DWalk(t, d, l) ==
  IF l > Len(t.events)
  THEN IF ~(\A p \in 1..t.np : d.fin[p]) THEN [l |-> l, clause |-> "not_all_processes_finished"]
       ELSE IF t.final # <<>> THEN [l |-> l, clause |-> "cleanup_directory_not_empty"]
       ELSE [l |-> l, clause |-> "ok"]
  ELSE LET r == DStep(d, t.events[l], t.gated, t.solo[t.events[l].p]) IN
       IF ~r.ok THEN [l |-> l, clause |-> r.clause] ELSE DWalk(t, r.d, l + 1)
DJudge(t) == DWalk(t, D0(1..t.np), 1)
=============================================================================
