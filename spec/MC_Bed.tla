------------------------------- MODULE MC_Bed -------------------------------
(* C18 on the model: every transcript [ts, te] over positions 1..7 with 0..2 exon blocks and 0..1 thick
   feature in every placement: the assembled BED12 record satisfies the declarative constraints, and
   ValueError is raised exactly when the blocks do not span the transcript.  Every (start, end, strand,
   use_strand) on a 12-base reference: the extracted sequence has length end - start + 1, equals the
   reference slice, and the minus strand is its reverse complement.                                   *)
EXTENDS Intervals, TLC
MCNum == {}
Ref == <<65, 67, 71, 84, 97, 99, 103, 116, 78, 65, 65, 67>>
Pos == 1..6
F0(s, e, st) == [MkF(<<116>>, <<109>>, <<>>, <<>>) EXCEPT !.start = s, !.end = e, !.strand = st]
VARIABLES t, blocks, thick, q
Q0 == <<1, 1, PLUS, TRUE>>
Init == /\ blocks = <<>> /\ thick = <<>>
        /\ \/ (\E s \in Pos, e \in Pos, st \in {PLUS, MINUSS} : s <= e /\ t = F0(s, e, st)) /\ q = Q0
           \/ t = F0(1, 1, PLUS) /\ \E s \in 1..12, e \in 1..12, st \in {PLUS, MINUSS, DOTT}, u \in BOOLEAN : s <= e /\ q = <<s, e, st, u>>
Ivs == {<<s, e>> \in Pos \X Pos : s <= e}
Next == /\ blocks = <<>> /\ thick = <<>> /\ t' = t /\ q = Q0 /\ q' = q
        /\ \E b \in {<<>>} \cup {<<F0(i[1], i[2], t.strand)>> : i \in Ivs} \cup {<<F0(i[1], i[2], t.strand), F0(j[1], j[2], t.strand)>> : i \in Ivs, j \in Ivs} :
             /\ (Len(b) = 2 => b[1].start <= b[2].start) /\ blocks' = (IF b = <<>> THEN <<F0(0, 0, PLUS)>> ELSE b)
        /\ \E c \in {<<>>} \cup {<<F0(i[1], i[2], t.strand)>> : i \in Ivs} : thick' = c
Blocks == IF blocks = <<F0(0, 0, PLUS)>> THEN <<>> ELSE blocks
InvBed == blocks # <<>> => Bed12_Decl(t, Blocks, Bed12_Alg(t, Blocks, thick, TRUE, T_ID, <<48>>))
InvSeq == LET s == SeqOf(Ref, q[1], q[2], q[3], q[4]) IN
          /\ Len(s) = q[2] - q[1] + 1
          /\ (~(q[4] /\ q[3] = MINUSS) => s = SubSeq(Ref, q[1], q[2]))
          /\ ((q[4] /\ q[3] = MINUSS) => \A i \in 1..Len(s) : s[i] = Comp(Ref[q[2] + 1 - i]))
=============================================================================
