------------------------------- MODULE Writer -------------------------------
(***************************************************************************)
(* Growth beyond the listed properties: gffwriter.GFFWriter.write_gene_recs *)
(* ("canonical order" of a gene's records) and helpers.sanitize_gff_db.     *)
(*                                                                          *)
(* write_gene_recs(db, gene):                                               *)
(*   gene ; for each mRNA child of the gene (ANY level), longest summed exon *)
(*   length first: the mRNA ; its children (any level) by start - an exon   *)
(*   is written when met and followed by ITS children by start, everything  *)
(*   else is kept back and written after the exons ; finally the level-1    *)
(*   children of the gene that are not mRNAs.                               *)
(* Algorithmic layer: that walk, ties broken by storage order.              *)
(* Declarative layer (WriterOK): what the docstring promises of the output: *)
(*   starts with the gene; mRNAs in non-increasing exon length; within an   *)
(*   mRNA's block the exons ascend by start and each is followed by its own *)
(*   children (ascending), non-exonic records come after the last exon; the *)
(*   gene's other level-1 children close the output; as a bag the output is *)
(*   exactly what the walk visits (so a record two levels below an mRNA is  *)
(*   written TWICE - below its exon and among the non-exonic rest: the      *)
(*   docstring's "probably doesn't handle deep hierarchies", stated).       *)
(***************************************************************************)
EXTENDS GffDB
T_mRNAw == <<109, 82, 78, 65>>
IdxOf(db, id) == IndexOfId(db, id)
\* children of x (level l, 0 = any) as a sequence in storage order, optionally sorted by start (stable)
KidsSeq(db, x, l, byStart) ==
  LET ks == {i \in 1..Len(db.feats) : db.feats[i].id \in Children(db, x, l)}
      sq == [k \in 1..Cardinality(ks) |-> db.feats[CHOOSE i \in ks : Cardinality({j \in ks : j < i}) = k - 1]]
  IN IF byStart THEN StableSortIdx(sq, LAMBDA i, j : sq[i].start < sq[j].start) ELSE sq
LenF(f) == f.end - f.start + 1
ExonLen(db, m) == SumSeq([i \in 1..Len(KidsSeq(db, m, 0, FALSE)) |-> IF KidsSeq(db, m, 0, FALSE)[i].ftype = T_exon THEN LenF(KidsSeq(db, m, 0, FALSE)[i]) ELSE 0])
MRNAs(db, g) == SelectSeq(KidsSeq(db, g, 0, FALSE), LAMBDA f : f.ftype = T_mRNAw)
SortedMRNAs(db, g) == LET ms == MRNAs(db, g) IN StableSortIdx(ms, LAMBDA i, j : ExonLen(db, ms[i].id) > ExonLen(db, ms[j].id))
MRNABlock(db, m) ==
  LET ks == KidsSeq(db, m, 0, TRUE)
      exonPart == FlatSeq([i \in 1..Len(ks) |-> IF ks[i].ftype = T_exon THEN <<ks[i].id>> \o [j \in 1..Len(KidsSeq(db, ks[i].id, 0, TRUE)) |-> KidsSeq(db, ks[i].id, 0, TRUE)[j].id] ELSE <<>>])
      rest == [i \in 1..Len(SelectSeq(ks, LAMBDA f : f.ftype # T_exon)) |-> SelectSeq(ks, LAMBDA f : f.ftype # T_exon)[i].id]
  IN exonPart \o rest
Write_Alg(db, g) ==
  LET ms == SortedMRNAs(db, g)
      tailPart == SelectSeq(KidsSeq(db, g, 1, FALSE), LAMBDA f : f.ftype # T_mRNAw)
  IN <<g>> \o FlatSeq([i \in 1..Len(ms) |-> <<ms[i].id>> \o MRNABlock(db, ms[i].id)]) \o [i \in 1..Len(tailPart) |-> tailPart[i].id]

\* ---- declarative ----------------------------------------------------------
F(db, id) == Get(db, id)
WriterOK(db, g, out) ==
  LET ms == {f.id : f \in ToSet(MRNAs(db, g))}
      mpos == {i \in 1..Len(out) : out[i] \in ms}
      tailIds == {f.id : f \in ToSet(SelectSeq(KidsSeq(db, g, 1, FALSE), LAMBDA f : f.ftype # T_mRNAw))}
      tailLen == Cardinality(tailIds)
      NextM(i) == IF \E j \in mpos : j > i THEN CHOOSE j \in mpos : j > i /\ \A k \in mpos : k > i => j <= k ELSE Len(out) - tailLen + 1
  IN /\ Len(out) >= 1 /\ out[1] = g
     /\ \A i \in 1..Len(out) : Has(db, out[i])
     /\ SameBag(out, Write_Alg(db, g))                                  \* exactly the records of the walk, with their multiplicities
     /\ \A i, j \in mpos : i < j => ExonLen(db, out[i]) >= ExonLen(db, out[j])            \* longest mRNA first
     /\ Cardinality(mpos) = Cardinality(ms)                                                \* each mRNA heads exactly one block
     /\ \A i \in mpos :                                                                    \* inside the block of the mRNA at position i
          LET blk == SubSeq(out, i + 1, NextM(i) - 1)
              exons == {k \in 1..Len(blk) : F(db, blk[k]).ftype = T_exon /\ blk[k] \in Children(db, out[i], 0)}
          IN /\ \A a, b \in exons : a < b => F(db, blk[a]).start <= F(db, blk[b]).start      \* exons ascend by start
             /\ \A k \in 1..Len(blk) : blk[k] \in Children(db, out[i], 0) \/ \E e \in exons : e < k /\ blk[k] \in Children(db, blk[e], 0)
     /\ {out[i] : i \in (Len(out) - tailLen + 1)..Len(out)} = tailIds                      \* the gene's other direct children close the output

\* ---- sanitize_gff_db ------------------------------------------------------
\* every feature of a gene unit ([gene] + children(gene): the relations table reaches two levels down) gets gid = [gene id]; start and end are
\* swapped where start > end.  Records deeper than two levels below a gene, or outside every gene, are NOT carried over (observed behaviour).
SanitizeKept(db) == UNION {{db.feats[i].id} \cup Children(db, db.feats[i].id, 0) : i \in {j \in 1..Len(db.feats) : db.feats[j].ftype = T_gene}}
Sanitize_Decl(db, out) ==     \* out: the sanitized database's features as records [id, start, end, gid]
  /\ {o.id : o \in out} = SanitizeKept(db)
  /\ \A o \in out : /\ o.start <= o.end
                    /\ \E f \in ToSet(db.feats) : f.id = o.id /\ {f.start, f.end} = {o.start, o.end}
=============================================================================
