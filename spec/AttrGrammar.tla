----------------------------- MODULE AttrGrammar -----------------------------
(***************************************************************************)
(* Declarative layer of C07/C08/C09/C01 on top of AttrSyntax:              *)
(*   the grammar of "one consistent dialect" and the theorems about it.    *)
(***************************************************************************)
EXTENDS AttrSyntax

AllVals(a) == FlatSeq([i \in 1..Len(a) |-> a[i][2]])
HasCtl(v) == \E i \in 1..Len(v) : v[i] \in 0..31 \/ v[i] = 127

\* the text of one value list as it is printed
ValStr(vs, d) == Join(IF d.fmt = "gff3" THEN [j \in 1..Len(vs) |-> Quote(vs[j])] ELSE vs, d.mvsep)
BlankSep(d) == d.kvsep = <<SP>>

(* Round trip of one attribute column through inference (C07): parse what was printed, print
   what was parsed (with the inferred dialect and keep_order), get the same mapping and text. *)
RoundTrip(a, d) ==
  LET t == Render(a, d, TRUE, FALSE)
      r == Infer(t)
  IN r.attrs = a /\ Render(r.attrs, r.d, TRUE, FALSE) = t

(* Lossless print/parse with the SAME dialect (C08a) *)
Lossless(a, d) == ParseWith(Render(a, d, TRUE, FALSE), d) = a

(***************************************************************************)
(* The grammar of "a line written in one consistent dialect" (C07).  Each  *)
(* clause is a side condition under which this printer/parser pair is      *)
(* invertible; TLC checks InGrammar => RoundTrip over the bounded domain    *)
(* and reports how many pairs are inside.                                   *)
(***************************************************************************)
KeyOK(k) == k # <<>> /\ \A i \in 1..Len(k) : IsWord(k[i])
\* printed text of each item after repeated-key expansion
ItemStrs(a, d) == LET its == Expand(a, d.rep) IN [i \in 1..Len(its) |-> ValStr(its[i][2], d)]
PartsOf(a, d) == LET enc == IF d.fmt = "gff3" THEN MapValues(a, Quote) ELSE a
                     its == Expand(enc, d.rep)
                 IN [i \in 1..Len(its) |-> Part(its[i], d, FALSE)]

InGrammarBase(a, d) ==
  /\ a # <<>> /\ NoDup(AttrKeys(a)) /\ \A i \in 1..Len(a) : KeyOK(a[i][1])
  /\ ~d.lead /\ d.mvsep = <<COMMA>>
  \* G1 no empty-string values (an empty value list is a valueless flag and is fine)
  /\ \A i \in 1..Len(AllVals(a)) : AllVals(a)[i] # <<>>
  \* G2 the dialect is one that inference can tell apart: gtf <=> blank-separated and quoted
  /\ (d.fmt = "gtf") = (BlankSep(d) /\ d.quoted)
  /\ d.kvsep \in {<<EQ>>, <<SP>>} /\ d.fsep \in {<<SEMI>>, <<SEMI, SP>>, <<SP, SEMI, SP>>}
  \* G3 no escaping in gtf: values free of ; " , and control characters
  /\ (d.fmt = "gtf" => \A i \in 1..Len(AllVals(a)) :
         LET v == AllVals(a)[i] IN ~HasCtl(v) /\ ~Contains(v, SEMI) /\ ~Contains(v, QT) /\ ~Contains(v, COMMA))
  \* G4 unquoted styles: a printed value must not look quoted
  /\ (~d.quoted => \A i \in 1..Len(ItemStrs(a, d)) : ~IsQuoted(ItemStrs(a, d)[i]))
  \* G5 blank-separated unquoted: the part is stripped, so a value cannot end with white space
  /\ ((BlankSep(d) /\ ~d.quoted) => \A i \in 1..Len(ItemStrs(a, d)) :
         LET s == ItemStrs(a, d)[i] IN s = <<>> \/ ~IsSpace(Last(s)))
  \* G6 the separator "; " is tried after " ; ": no part but the last may end with a blank
  /\ (d.fsep = <<SEMI, SP>> => \A i \in 1..(Len(PartsOf(a, d)) - 1) : Last(PartsOf(a, d)[i]) # SP)
  \* G8 comma lists: no element of a list of two or more starts with a blank
  /\ (~d.rep => \A i \in 1..Len(a) : Len(a[i][2]) >= 2 => \A j \in 1..Len(a[i][2]) : a[i][2][j][1] # SP)


\* G7 key=value is recognised on the FIRST part only: it must carry a value (or no part does).
\* The statement's grammar has valueless flags anywhere, so G7 is not part of it: lines that break
\* only G7 are the known finding Dev_FirstPartDecidesStyle (F13), e.g.  flag;ID=a
G7(a, d) == d.kvsep = <<EQ>> => (ItemStrs(a, d)[1] # <<>> \/ \A i \in 1..Len(ItemStrs(a, d)) : ItemStrs(a, d)[i] = <<>>)
InGrammar(a, d) == InGrammarBase(a, d) /\ G7(a, d)
Dev_FirstPartDecidesStyle(a, d) == InGrammarBase(a, d) /\ ~G7(a, d)

\* C08(a): the one dialect family in which print/parse with the same dialect is not lossless:
\* GTF-style without quotes strips white space at the edges of a part (known finding F10)
\* (a part is stripped and then split at blanks: white space at the END of the printed value is lost;
\*  leading white space survives the split)
EdgeBlank(v) == v # <<>> /\ IsSpace(Last(v))
Dev_UnquotedGtfStripsEdgeBlanks(a, d) ==
  d.fmt = "gtf" /\ ~d.quoted /\ \E i \in 1..Len(ItemStrs(a, d)) : EdgeBlank(ItemStrs(a, d)[i])
\* domain of C08(a)
LosslessDomain(a, d) ==
  /\ a # <<>> /\ NoDup(AttrKeys(a)) /\ ~d.lead /\ d.mvsep = <<COMMA>>
  /\ \A i \in 1..Len(a) : a[i][2] # <<>> /\ \A j \in 1..Len(a[i][2]) : a[i][2][j] # <<>>
  /\ (d.fmt = "gtf" => \A i \in 1..Len(AllVals(a)) :
         LET v == AllVals(a)[i] IN ~HasCtl(v) /\ ~Contains(v, SEMI) /\ ~Contains(v, QT) /\ ~Contains(v, COMMA))

(* What inference can observe of d on the attributes a (C09): a dimension that the text does not
   exhibit falls back to its default.                                                            *)
Observable(a, d) ==
  LET strs == ItemStrs(a, d)
      anyVal == \E i \in 1..Len(strs) : strs[i] # <<>>
      allFlags == ~anyVal
  IN [lead |-> FALSE, trail |-> d.trail,
      quoted |-> d.quoted /\ (anyVal \/ d.fmt = "gtf"),
      fsep |-> IF Len(strs) >= 2 THEN d.fsep ELSE <<SEMI>>,
      kvsep |-> IF d.kvsep = <<EQ>> /\ allFlags THEN <<SP>> ELSE d.kvsep,
      mvsep |-> <<COMMA>>,
      fmt |-> d.fmt,
      rep |-> d.rep /\ \E i \in 1..Len(a) : Len(a[i][2]) >= 2,
      order |-> AttrKeys(Expand(a, d.rep))]
InfersDialect(a, d) == Infer(Render(a, d, TRUE, FALSE)).d = Observable(a, d)

(***************************************************************************)
(* Whole lines (C07): a small menu of column / extra-column shapes, the    *)
(* line of a case, its space-separated rendering, and the case record that *)
(* generators print for the harness.                                       *)
(***************************************************************************)
LineCols(n) == CASE n % 6 = 0 -> <<<<99, 104, 114, 49>>, <<115, 114, 99>>, <<103, 101, 110, 101>>, <<49, 48, 48>>, <<50, 48, 48>>, <<46>>, <<43>>, <<46>>>>
                 [] n % 6 = 1 -> <<<<99, 104, 114, 50>>, <<46>>, <<101, 120, 111, 110>>, <<46>>, <<46>>, <<48, 46, 53>>, <<45>>, <<48>>>>
                 [] n % 6 = 2 -> <<<<50, 76>>, <<70, 108, 121, 66, 97, 115, 101>>, <<67, 68, 83>>, <<53, 51, 54, 56, 55, 48, 57, 49, 49>>, <<53, 51, 54, 56, 55, 48, 57, 49, 51>>, <<49, 101, 45, 53>>, <<46>>, <<50>>>>
                 [] n % 6 = 3 -> <<<<99, 116, 103, 95, 49, 46, 49>>, <<97, 45, 98>>, <<102, 105, 118, 101, 95, 112, 114, 105, 109, 101, 95, 85, 84, 82>>, <<49>>, <<49>>, <<55>>, <<43>>, <<46>>>>
                 \* exactly ONE of start / end is '.'
                 [] n % 6 = 4 -> <<<<116, 114, 97, 99, 107, 49, 50>>, <<115>>, <<103, 101, 110, 101>>, <<46>>, <<55, 55>>, <<46>>, <<43>>, <<46>>>>
                 [] OTHER -> <<<<98, 114, 111, 119, 115, 101, 114, 95, 99, 116, 103>>, <<115>>, <<103, 101, 110, 101>>, <<49, 50>>, <<46>>, <<46>>, <<45>>, <<46>>>>
LineExtra(n) == CASE (n \div 6) % 3 = 0 -> <<>> [] (n \div 6) % 3 = 1 -> <<<<120>>>> [] OTHER -> <<<<101, 49>>, <<>>, <<101, 51>>>>      \* n in 0..17: 6 column shapes x 3 extras

InG(a, d) == a = <<>> \/ InGrammar(a, d)
Obs(a, d) == IF a = <<>> THEN DefaultDialect ELSE Observable(a, d)
LineFeature(n, a, d) == [cols |-> LineCols(n), attrs |-> a, extra |-> LineExtra(n), d |-> d]
LineOf(n, a, d) == ToLine(LineFeature(n, a, d), TRUE, FALSE)
\* the same nine columns separated by single blanks (only for lines without extra columns whose
\* attribute column has no white space at its edges: strict=False strips the line)
LooseApplies(n, a, d) == LET t == Render(a, d, TRUE, FALSE) IN
                         LineExtra(n) = <<>> /\ (t = <<>> \/ (~IsSpace(t[1]) /\ ~IsSpace(Last(t))))
LooseLineOf(n, a, d) == Join(LineCols(n) \o <<Render(a, d, TRUE, FALSE)>>, <<SP>>)
LooseEqual(n, a, d) == ToLine(FromLineLoose(LooseLineOf(n, a, d)), TRUE, FALSE) = ToLine(FromLine(LineOf(n, a, d), DefaultDialect, FALSE), TRUE, FALSE)
LineRoundTrip(n, a, d) == LET l == LineOf(n, a, d)  f == FromLine(l, DefaultDialect, FALSE) IN
                          f.cols = LineCols(n) /\ f.extra = LineExtra(n) /\ f.attrs = a /\ ToLine(f, TRUE, FALSE) = l

CaseRecord(n, a, d) ==
  LET l == LineOf(n, a, d)  p == FromLine(l, DefaultDialect, FALSE) IN
  [n |-> n, a |-> a, d |-> d, t |-> Render(a, d, TRUE, FALSE), line |-> l, cols |-> LineCols(n), extra |-> LineExtra(n),
   in |-> InG(a, d), f13 |-> (a # <<>> /\ Dev_FirstPartDecidesStyle(a, d)),
   obs |-> IF InG(a, d) THEN Obs(a, d) ELSE p.d,
   \* what a file of such lines reports (C09): keys once, in first-seen order
   fobs |-> IF InG(a, d) THEN [Obs(a, d) EXCEPT !.order = Dedup(Obs(a, d).order, <<>>)] ELSE p.d,
   loose |-> IF LooseApplies(n, a, d) THEN LooseLineOf(n, a, d) ELSE <<>>,
   pattrs |-> p.attrs, pd |-> p.d, pline |-> ToLine(p, TRUE, FALSE)]
=============================================================================
