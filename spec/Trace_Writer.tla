---------------------------- MODULE Trace_Writer ----------------------------
(* Judge for recorded GFFWriter.write_gene_recs outputs.  IOEnv.TRACE_FILE = [cases |-> << [feats, rels, gene, out], ... >>]
   (feats / rels: the stored database as the model printed or as read back; out: the ids of the written lines in order).
   Verdict: Writer!WriterOK (the docstring's promises); "drift" when the output satisfies them but is not the walk's own tie order. *)
EXTENDS Writer, Json, IOUtils
Data == JsonDeserialize(IOEnv.TRACE_FILE)
DBOf(c) == [EmptyDB EXCEPT !.feats = c.feats, !.rels = {<<c.rels[i][1], c.rels[i][2], c.rels[i][3]>> : i \in 1..Len(c.rels)}]
Verdict(c) == LET db == DBOf(c) IN
  IF ~WriterOK(db, c.gene, c.out) THEN "not_canonical" ELSE IF c.out # Write_Alg(db, c.gene) THEN "drift" ELSE "ok"
VARIABLES i, done
Init == i \in 1..Len(Data.cases) /\ done = FALSE
Next == /\ ~done /\ done' = TRUE /\ i' = i
        /\ LET v == Verdict(Data.cases[i]) IN v = "ok" \/ PrintT(ToJson([reject |-> i, clause |-> v]))
=============================================================================
