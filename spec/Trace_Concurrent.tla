-------------------------- MODULE Trace_Concurrent --------------------------
(* Trace validation for C20.  IOEnv.TRACE_FILE = [names, traces] with
     trace = [np, gated, solo : <<content hash per process>>, final : listing after all runs, events : <<event>>]
     event = [p, ev \in {"mk","wr","rd","rm","done"}, name, listing, content, outok]
   recorded by the audit-hook scheduler at the OS-API boundary of real processes (listing / content are
   taken while the event is pending, i.e. they describe the state BEFORE the step).  Every event must be
   an enabled step of Concurrent (unlogged private steps Populate / Ins are composed in), the model's
   directory must equal the observed listing, every invariant must hold after every step.
   Verdicts are total: the first failing clause of a trace is printed and the next trace is judged.      *)
EXTENDS Concurrent, Json, IOUtils
Data2 == JsonDeserialize(IOEnv.TRACE_FILE)
Traces == Data2.traces
\* (substituted constants are re-evaluated at every use: they must not touch the trace file)
TraceNames == STRING
TraceProcs == 1..atoi(IOEnv.MAXNP)
TraceKind == [p \in TraceProcs |-> "gff"]
ToSet(sq) == {sq[i] : i \in 1..Len(sq)}

InvAll(s) == IsolationS(s) /\ OwnFileOnlyS(s) /\ DistinctNamesS(s) /\ SolitaryResultS(s)
\* one logged event on state s of trace t: [ok, s, clause]
StepE(t, s, e) ==
  LET p == e.p
      listed == (~t.gated) \/ ToSet(e.listing) = DOMAIN s.tmp
  IN CASE e.ev = "mk" ->
            LET s1 == IF GPopulate(s, p) THEN SPopulate(s, p) ELSE s IN
            IF ~listed THEN [ok |-> FALSE, s |-> s, clause |-> "listing_before_mk"]
            ELSE IF ~GMk(s1, p, e.name) THEN [ok |-> FALSE, s |-> s, clause |-> "mk_not_enabled_or_name_not_fresh"]
            ELSE [ok |-> TRUE, s |-> SMk(s1, p, e.name), clause |-> ""]
       [] e.ev = "wr" ->
            IF ~GWr(s, p) THEN [ok |-> FALSE, s |-> s, clause |-> "wr_out_of_order"]
            ELSE IF e.name # s.myTmp[p] THEN [ok |-> FALSE, s |-> s, clause |-> "wr_foreign_file"]
            ELSE IF ~listed THEN [ok |-> FALSE, s |-> s, clause |-> "listing_before_wr"]
            ELSE [ok |-> TRUE, s |-> SWr(s, p), clause |-> ""]
       [] e.ev = "rd" ->
            IF ~GRd(s, p) THEN [ok |-> FALSE, s |-> s, clause |-> "rd_out_of_order"]
            ELSE IF e.name # s.myTmp[p] THEN [ok |-> FALSE, s |-> s, clause |-> "rd_foreign_file"]
            ELSE IF ~listed THEN [ok |-> FALSE, s |-> s, clause |-> "listing_before_rd"]
            ELSE IF e.content # t.solo[p] THEN [ok |-> FALSE, s |-> s, clause |-> "isolation_content_differs_from_solitary_run"]
            ELSE [ok |-> TRUE, s |-> SRd(s, p), clause |-> ""]
       [] e.ev = "rm" ->
            LET s1 == IF GIns(s, p) THEN SIns(s, p) ELSE s IN
            IF ~GRm(s1, p) THEN [ok |-> FALSE, s |-> s, clause |-> "rm_out_of_order"]
            ELSE IF e.name # s.myTmp[p] THEN [ok |-> FALSE, s |-> s, clause |-> "rm_foreign_file"]
            ELSE IF ~listed THEN [ok |-> FALSE, s |-> s, clause |-> "listing_before_rm"]
            ELSE [ok |-> TRUE, s |-> SRm(s1, p), clause |-> ""]
       [] e.ev = "crashed" -> [ok |-> FALSE, s |-> s, clause |-> "process_crashed"]
       [] e.ev = "done" ->
            IF s.pc[p] # "done" THEN [ok |-> FALSE, s |-> s, clause |-> "finished_without_removing_its_file"]
            ELSE IF ~e.outok THEN [ok |-> FALSE, s |-> s, clause |-> "output_differs_from_solitary_run"]
            ELSE [ok |-> TRUE, s |-> s, clause |-> ""]
RECURSIVE Walk(_, _, _)
Walk(t, s, l) ==
  IF l > Len(t.events)
  THEN IF ~(\A p \in 1..t.np : s.pc[p] = "done") THEN [l |-> l, clause |-> "not_all_processes_finished"]
       ELSE IF t.final # <<>> THEN [l |-> l, clause |-> "cleanup_directory_not_empty"]
       ELSE [l |-> l, clause |-> "ok"]
  ELSE LET r == StepE(t, s, t.events[l]) IN
       IF ~r.ok THEN [l |-> l, clause |-> r.clause]
       ELSE IF ~InvAll(r.s) THEN [l |-> l, clause |-> "invariant_after_step"]
       ELSE Walk(t, r.s, l + 1)
\* processes beyond t.np never start: mark them done
StartState(t) == [S0 EXCEPT !.pc = [p \in TraceProcs |-> IF p <= t.np THEN "start" ELSE "done"],
                            !.readBack = [p \in TraceProcs |-> IF p <= t.np THEN <<>> ELSE Data(p)],
                            !.outDb = [p \in TraceProcs |-> IF p <= t.np THEN <<>> ELSE Import(p, Data(p))]]
VARIABLES i, done
TInit == i \in 1..Len(Traces) /\ done = FALSE /\ Init
TNext == /\ ~done /\ done' = TRUE /\ i' = i /\ UNCHANGED vars
         /\ LET v == Walk(Traces[i], StartState(Traces[i]), 1) IN
            v.clause = "ok" \/ PrintT(ToJson([reject |-> i, at |-> v.l, clause |-> v.clause]))
=============================================================================
