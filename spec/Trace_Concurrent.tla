-------------------------- MODULE Trace_Concurrent --------------------------
(* Trace validation for C20.  IOEnv.TRACE_FILE = [traces] with
     trace = [np, gated, solo : <<per process: <<content hash of every read-back of a solitary run>> >>,
              final : listing after all runs, events : <<event>>]
     event = [p, ev \in {"mk","wr","rd","rm","done","crashed"}, name, listing, content, outok]
   recorded by the audit-hook scheduler at the OS-API boundary of real processes (listing / content are
   taken while the event is pending, i.e. they describe the state BEFORE the step).
   The verdict is the declarative layer's (ConcurrentDecl!DJudge): any protocol that keeps to its own,
   freshly named files, reads back what a solitary run reads, removes them and produces the solitary
   output is accepted.  That the present code's protocol (Concurrent.tla: Mk Wr Rd Rm) is such a protocol
   is MC_Concurrent's invariant DeclAccepts; whether a recorded process followed exactly that protocol is
   reported as a note by the driver ("protocol drift"), never as a violation.
   Verdicts are total: the first failing clause of a trace is printed and the next trace is judged.      *)
EXTENDS ConcurrentDecl, Json, IOUtils
Data2 == JsonDeserialize(IOEnv.TRACE_FILE)
Traces == Data2.traces
VARIABLES i, done
TInit == i \in 1..Len(Traces) /\ done = FALSE
TNext == /\ ~done /\ done' = TRUE /\ i' = i
         /\ LET v == DJudge(Traces[i]) IN
            v.clause = "ok" \/ PrintT(ToJson([reject |-> i, at |-> v.l, clause |-> v.clause]))
=============================================================================
