----------------------------- MODULE MC_Dialect -----------------------------
(* C09: every window of <= MaxLen lines over a menu of attribute strings that differ in
   every dialect dimension and in weight (0..3 attributes), every checklines 0..MaxLen+1.
   Invariant: the algorithmic choice is a weighted-majority / first-seen winner for each key.
   Each (lines, checklines) is printed with the expected dialect for replay on the code.      *)
EXTENDS Dialect, TLC, Json
CONSTANT MaxLen
Menu == << <<>>,   \* 
          <<73, 68, 61, 97>>,   \* ID=a
          <<73, 68, 61, 97, 59, 78, 97, 109, 101, 61, 98>>,   \* ID=a;Name=b
          <<73, 68, 61, 97, 59, 32, 78, 97, 109, 101, 61, 98>>,   \* ID=a; Name=b
          <<73, 68, 61, 97, 59, 78, 97, 109, 101, 61, 98, 59>>,   \* ID=a;Name=b;
          <<103, 101, 110, 101, 95, 105, 100, 32, 34, 103, 34, 59, 32, 116, 114, 97, 110, 115, 99, 114, 105, 112, 116, 95, 105, 100, 32, 34, 116, 34, 59>>,   \* gene_id "g"; transcript_id "t";
          <<103, 101, 110, 101, 95, 105, 100, 32, 34, 103, 34>>,   \* gene_id "g"
          <<97, 32, 49, 32, 59, 32, 98, 32, 50>>,   \* a 1 ; b 2
          <<73, 68, 61, 97, 59, 73, 68, 61, 98>>,   \* ID=a;ID=b
          <<120, 61, 49, 59, 121, 61, 50, 59, 122, 61, 51>>,   \* x=1;y=2;z=3
          <<107, 32, 34, 118, 34, 59, 107, 32, 34, 119, 34>>,   \* k "v";k "w"
          <<97, 61, 49, 44, 50, 59, 98>> >> \* a=1,2;b
VARIABLES lines, cl, done
Init == lines \in UNION {[1..n -> 1..Len(Menu)] : n \in 0..(MaxLen - 1)} /\ cl = 0 /\ done = FALSE
Items(ls) == [i \in 1..Len(ls) |-> LET r == Infer(Menu[ls[i]]) IN [attrs |-> r.attrs, d |-> r.d]]
Exp(ls, c) == Choose_Alg(Window(Items(ls), c))
Next == /\ ~done /\ done' = TRUE
        /\ \E last \in 0..Len(Menu) : lines' = IF last = 0 THEN lines ELSE Append(lines, last)
        /\ cl' \in 0..(MaxLen + 1)
        /\ PrintT(ToJson([lines |-> lines', cl |-> cl', texts |-> [i \in 1..Len(lines') |-> Menu[lines'[i]]],
                         per |-> [i \in 1..Len(lines') |-> Infer(Menu[lines'[i]]).d],
                         exp |-> Exp(lines', cl'), imp |-> Importer(Exp(lines', cl'))]))
InvDecl == done => Choose_Decl(Window(Items(lines), cl), Exp(lines, cl))
\* a window that is consistent (all lines infer the same dialect apart from order) yields that dialect
InvConsistent == done => LET w == Window(Items(lines), cl) IN
   (w # <<>> /\ \A i \in 1..Len(w) : [w[i].d EXCEPT !.order = <<>>] = [w[1].d EXCEPT !.order = <<>>])
      => [Exp(lines, cl) EXCEPT !.order = <<>>] = [w[1].d EXCEPT !.order = <<>>]
=============================================================================
