------------------------------ MODULE MC_DB03 ------------------------------
(* C03: GTF import.  Files are ordered selections of <= MaxLines lines from a menu over two genes
   (g1: transcripts t1, t2; g2: t3): exons and CDS with coordinates 1..6, explicit transcript / gene
   lines (one whose extent differs from what would be derived), a transcript that may be left
   without exons; every order of the chosen lines; the four disable_infer_* combinations; default
   and custom transcript/gene keys + subfeature type.  The invariants restate C03 from the LINES. *)
EXTENDS GffDB, Json
CONSTANT MaxLines
G1 == <<103, 49>>  G2 == <<103, 50>>  T1 == <<116, 49>>  T2 == <<116, 50>>  T3 == <<116, 51>>
T_CDS == <<67, 68, 83>>
Plus == <<43>>  Minus == <<45>>
CKeyT == <<116, 120>>  CKeyG == <<103, 110>>        \* custom keys "tx", "gn"
\* menu line: [ft, s, e, g, t, strand]   (t = <<>> for gene lines)
Menu == << [ft |-> "sub", s |-> 1, e |-> 2, g |-> G1, t |-> T1, strand |-> Plus],
           [ft |-> "sub", s |-> 4, e |-> 6, g |-> G1, t |-> T1, strand |-> Plus],
           [ft |-> "sub", s |-> 3, e |-> 5, g |-> G1, t |-> T2, strand |-> Plus],
           [ft |-> "other", s |-> 1, e |-> 2, g |-> G1, t |-> T1, strand |-> Plus],
           [ft |-> "other", s |-> 2, e |-> 3, g |-> G1, t |-> T2, strand |-> Plus],
           [ft |-> "sub", s |-> 0, e |-> 2, g |-> G2, t |-> T3, strand |-> Minus],         \* (an exon that starts at coordinate 0)
           [ft |-> "transcript", s |-> 1, e |-> 6, g |-> G1, t |-> T1, strand |-> Plus],
           [ft |-> "gene", s |-> 1, e |-> 6, g |-> G1, t |-> <<>>, strand |-> Plus],
           [ft |-> "transcript", s |-> 1, e |-> 3, g |-> G1, t |-> T2, strand |-> Plus],
           \* an exon line that carries the gene id but NO transcript id, outside the span of the gene's transcripts: it still is one of "all its exons"
           [ft |-> "sub", s |-> 7, e |-> 8, g |-> G1, t |-> <<>>, strand |-> Plus] >>
Variants == {[noT |-> a, noG |-> b, custom |-> c] : a \in BOOLEAN, b \in BOOLEAN, c \in {FALSE}} \cup {[noT |-> FALSE, noG |-> FALSE, custom |-> TRUE]}

KeyT(v) == IF v.custom THEN CKeyT ELSE T_transcript_id
KeyG(v) == IF v.custom THEN CKeyG ELSE T_gene_id
SubT(v) == IF v.custom THEN T_CDS ELSE T_exon
OtherT(v) == IF v.custom THEN T_exon ELSE T_CDS
FType(m, v) == CASE m.ft = "sub" -> SubT(v) [] m.ft = "other" -> OtherT(v) [] m.ft = "transcript" -> T_transcript [] m.ft = "gene" -> T_gene
LineF(m, v) == [seqid |-> <<99, 104, 114, 49>>, source |-> <<115>>, ftype |-> FType(m, v), start |-> m.s, end |-> m.e, score |-> <<DOT>>,
                strand |-> m.strand, frame |-> <<DOT>>, extra |-> <<>>,
                attrs |-> <<<<KeyG(v), <<m.g>>>>>> \o (IF m.t = <<>> THEN <<>> ELSE <<<<KeyT(v), <<m.t>>>>>>)]
A(k) == [t |-> "attr", k |-> k]
Cfg(v) == [DefaultCfg EXCEPT !.importer = "gtf", !.tkey = KeyT(v), !.gkey = KeyG(v), !.sub = SubT(v), !.noT = v.noT, !.noG = v.noG,
                             !.idspec = [kind |-> "dict", map |-> <<<<T_gene, <<A(KeyG(v))>>>>, <<T_transcript, <<A(KeyT(v))>>>>>>]]
GtfDialect == [DefaultDialect EXCEPT !.fmt = "gtf", !.kvsep = <<SP>>, !.fsep = <<SEMI, SP>>, !.quoted = TRUE, !.trail = TRUE]

VARIABLES sel, v, res, done
Seqs(n) == {s \in [1..n -> 1..Len(Menu)] : \A i, j \in 1..n : i # j => s[i] # s[j]}
Init == sel \in UNION {Seqs(n) : n \in 1..(MaxLines - 1)} /\ v = [none |-> TRUE] /\ res = [st |-> "none"] /\ done = FALSE
Lines(s, vv) == [i \in 1..Len(s) |-> LineF(Menu[s[i]], vv)]
View3(db) == [feats |-> {[id |-> f.id, ftype |-> f.ftype, seqid |-> f.seqid, strand |-> f.strand, start |-> f.start, end |-> f.end] : f \in ToSet(db.feats)},
              rels |-> db.rels]
\* Domain: GTF requires a transcript_id on every exon line.  The transcript-less exon (menu line 10) is admitted only NEXT TO a regular exon of
\* the same gene (lines 1-3): then the gene is derived anyway and "all its exons" includes line 10.  (A gene known ONLY from transcript-less
\* lines is not derived by the importer - observed, outside the statement's domain, DESIGN section 6.)
InDomain(s) == (10 \in ToSet(s)) => (ToSet(s) \cap {1, 2, 3} # {})
Next == /\ ~done /\ done' = TRUE
        /\ \E last \in (0..Len(Menu)) \ ToSet(sel) : sel' = IF last = 0 THEN sel ELSE Append(sel, last)
        /\ InDomain(sel')
        /\ v' \in Variants
        /\ res' = Create(Lines(sel', v'), <<>>, GtfDialect, Cfg(v'))
        /\ PrintT(ToJson([sel |-> sel', v |-> v', lines |-> Lines(sel', v'), st |-> res'.st, view |-> View3(res'.db),
                          texts |-> [i \in 1..Len(sel') |-> LineText(WithId(Lines(sel', v')[i]), [GtfDialect EXCEPT !.order = <<KeyG(v'), KeyT(v')>>])]]))

(* ---------------------------- declarative layer --------------------------- *)
OK == done /\ res.st = "ok"
DBF == res.db
ML == [i \in 1..Len(sel) |-> Menu[sel[i]]]
SubLines(t) == {i \in 1..Len(ML) : ML[i].ft = "sub" /\ ML[i].t = t}
SubLinesG(g) == {i \in 1..Len(ML) : ML[i].ft = "sub" /\ ML[i].g = g}
Ts == {T1, T2, T3}   Gs == {G1, G2}
GeneOf(t) == IF t = T3 THEN G2 ELSE G1
ExplicitT(t) == \E i \in 1..Len(ML) : ML[i].ft = "transcript" /\ ML[i].t = t
ExplicitG(g) == \E i \in 1..Len(ML) : ML[i].ft = "gene" /\ ML[i].g = g
MinS(I) == CHOOSE x \in {ML[i].s : i \in I} : \A y \in {ML[i].s : i \in I} : x <= y
MaxE(I) == CHOOSE x \in {ML[i].e : i \in I} : \A y \in {ML[i].e : i \in I} : x >= y
Under(id) == {f \in ToSet(DBF.feats) : f.id = id}
\* every transcript id that owns a subfeature gets ONE feature under that id: derived with the exact extent, or the explicit line
InvTranscripts == OK => \A t \in Ts :
   IF ExplicitT(t) THEN Cardinality(Under(t)) = 1 /\ \A f \in Under(t) : f.ftype = T_transcript /\ \E i \in 1..Len(ML) : ML[i].ft = "transcript" /\ ML[i].t = t /\ f.start = ML[i].s /\ f.end = ML[i].e
   ELSE IF SubLines(t) # {} /\ ~v.noT
        THEN Cardinality(Under(t)) = 1 /\ \A f \in Under(t) : f.ftype = T_transcript /\ f.start = MinS(SubLines(t)) /\ f.end = MaxE(SubLines(t))
                                                              /\ \A i \in SubLines(t) : f.strand = ML[i].strand /\ f.seqid = <<99, 104, 114, 49>>
        ELSE Under(t) = {}
InvGenes == OK => \A g \in Gs :
   IF ExplicitG(g) THEN Cardinality(Under(g)) = 1 /\ \A f \in Under(g) : f.ftype = T_gene /\ f.start = 1 /\ f.end = 6
   ELSE IF SubLinesG(g) # {} /\ ~v.noG
        THEN Cardinality(Under(g)) = 1 /\ \A f \in Under(g) : f.ftype = T_gene /\ f.start = MinS(SubLinesG(g)) /\ f.end = MaxE(SubLinesG(g))
        ELSE Under(g) = {}
\* relation levels: every non-gene/transcript line is a level-1 child of its transcript and a level-2 child of its gene; transcript under gene at level 1
LineIds == [i \in 1..Len(sel) |-> DBF.feats[i].id]
InvLevels == OK => /\ Len(DBF.feats) >= Len(sel)
                   /\ \A i \in 1..Len(ML) : (ML[i].ft \in {"sub", "other"} /\ ML[i].t # <<>>) =>
                        /\ <<ML[i].t, LineIds[i], 1>> \in DBF.rels /\ <<ML[i].g, LineIds[i], 2>> \in DBF.rels
                        /\ <<ML[i].g, ML[i].t, 1>> \in DBF.rels
                        /\ \A r \in DBF.rels : r[2] = LineIds[i] => r \in {<<ML[i].t, LineIds[i], 1>>, <<ML[i].g, LineIds[i], 2>>}
                   \* a line that carries the gene id only hangs below its gene (level 2) and below nothing else
                   /\ \A i \in 1..Len(ML) : (ML[i].ft \in {"sub", "other"} /\ ML[i].t = <<>>) =>
                        /\ <<ML[i].g, LineIds[i], 2>> \in DBF.rels
                        /\ \A r \in DBF.rels : r[2] = LineIds[i] => r = <<ML[i].g, LineIds[i], 2>>
InvNoSelf == OK => \A r \in DBF.rels : r[1] # r[2]
\* nothing else is stored: input lines plus derived transcripts / genes
InvNothingElse == OK => \A f \in ToSet(DBF.feats) : f.id \in ToSet(LineIds) \cup Ts \cup Gs
=============================================================================
