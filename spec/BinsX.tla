------------------------------- MODULE BinsX -------------------------------
(* Sequence- and set-valued views of Bins (kept apart so that Bins.tla stays
   integer-only for Apalache).                                               *)
EXTENDS Bins, Sequences, FiniteSets

(* result of bins(start, stop, fmt, one=False) as the five index ranges (plus bin 1)  *)
SetRanges_Alg(start, stop, fmt) ==
  IF OutOfRange(start, stop) \/ ShiftedNegative(start, fmt) THEN <<>>
  ELSE LET a == start - CoordOff(fmt)
       IN [k \in 1..NLEV |-> <<RangeLo(a, k - 1), RangeHi(stop, k - 1)>>]

\* the explicit set (used on small instances only)
BinSet_Alg(start, stop, fmt) == {x \in 0..MaxBin : InSet_Alg(x, start, stop, fmt)}

=============================================================================
