------------------------------- MODULE Source -------------------------------
(***************************************************************************)
(* C13 / C14: the input side (iterators.py, inspect.py).                   *)
(* A file is a sequence of items                                           *)
(*   [k |-> "F", f |-> feature]   a feature line                           *)
(*   [k |-> "D", t |-> text]      '##' + text                              *)
(*   [k |-> "C"] a '#' comment, [k |-> "B"] an empty line,                 *)
(*   [k |-> "FASTA"] the line '##FASTA', [k |-> "H"] a '>' header,         *)
(*   [k |-> "J"] sequence text after a FASTA marker                        *)
(* A feature is [n, ftype, seqid, keys] (enough for iteration order,       *)
(* transform/skip and inspect()).                                          *)
(* Input forms: re-readable (path, gzip path, string, list) and one-shot   *)
(* (generator, DataIterator, FeatureDB = its all_features() generator).    *)
(***************************************************************************)
EXTENDS Prelude

OneShot == {"generator", "iterator", "dataiterator", "featuredb"}     \* "iterator": any object with __next__ that is not a generator (iter(list), map(...))
ReReadable == {"path", "gz", "string", "list"}
Forms == OneShot \cup ReReadable

(* ---- line classification (iterators._FileIterator._custom_iter) ---- *)
RECURSIVE Scan(_, _)
\* acc = [feats, dirs]; nothing at or after '##FASTA' / '>' is read
Scan(items, acc) ==
  IF items = <<>> THEN acc
  ELSE LET it == Head(items) IN
       IF it.k \in {"FASTA", "H"} THEN acc
       ELSE IF it.k = "D" THEN Scan(Tail(items), [acc EXCEPT !.dirs = Append(@, it.t)])
       ELSE IF it.k = "F" THEN Scan(Tail(items), [acc EXCEPT !.feats = Append(@, it.f)])
       ELSE Scan(Tail(items), acc)
Features(items) == Scan(items, [feats |-> <<>>, dirs |-> <<>>]).feats
Directives_Decl(items) == Scan(items, [feats |-> <<>>, dirs |-> <<>>]).dirs      \* C14: all of them, in order

\* the directives a generator has recorded when it is abandoned after yielding its m-th feature
\* (m = 0: nothing was requested; if the file has fewer features the generator ran to the cut)
RECURSIVE ScanUntil(_, _, _)
ScanUntil(items, m, acc) ==
  IF items = <<>> \/ Len(acc.feats) = m THEN acc
  ELSE LET it == Head(items) IN
       IF it.k \in {"FASTA", "H"} THEN acc
       ELSE IF it.k = "D" THEN ScanUntil(Tail(items), m, [acc EXCEPT !.dirs = Append(@, it.t)])
       ELSE IF it.k = "F" THEN ScanUntil(Tail(items), m, [acc EXCEPT !.feats = Append(@, it.f)])
       ELSE ScanUntil(Tail(items), m, acc)
DirsSeenByPeek(items, checklines) == ScanUntil(items, checklines + 1, [feats |-> <<>>, dirs |-> <<>>]).dirs

(* ---- peek: checklines + 1 items are taken; a one-shot source gets them chained back ---- *)
Peeked(feats, checklines) == SubSeq(feats, 1, Min2(Len(feats), checklines + 1))
Rest(feats, checklines) == SubSeq(feats, Min2(Len(feats), checklines + 1) + 1, Len(feats))
StreamAfterPeek_Alg(form, feats, checklines) ==
  IF form \in OneShot THEN Peeked(feats, checklines) \o Rest(feats, checklines)     \* itertools.chain(initial, self.data)
  ELSE feats                                                                       \* re-opened / re-iterated from the start

(* ---- iteration with a transform: applied once per feature; falsy result = skipped ---- *)
\* transforms of the model: "none", "drop" (drops the features whose n is in S), "tag" (marks every feature)
Keep(tr, S, f) == tr # "drop" \/ f.n \notin S
Out_Decl(feats, tr, S) == SelectSeq(feats, LAMBDA f : Keep(tr, S, f))
Out_Alg(form, feats, checklines, tr, S) == SelectSeq(StreamAfterPeek_Alg(form, feats, checklines), LAMBDA f : Keep(tr, S, f))
TransformCalls_Decl(feats, tr) == IF tr = "none" THEN <<>> ELSE [i \in 1..Len(feats) |-> feats[i].n]    \* one call per feature, in order

(* ---- what create_db stores of the directives ---- *)
\* F9 (before the repair): the importer kept the list object of the peek, which the iteration then replaced
DbDirectives_Alg(items, checklines, dev) == IF dev THEN DirsSeenByPeek(items, checklines) ELSE Directives_Decl(items)

(* ---- inspect(data, look_for, limit) ---- *)
Looked(feats, limit) == IF limit > 0 /\ limit < Len(feats) THEN SubSeq(feats, 1, limit) ELSE feats
CountOf(sq, x) == Cardinality({i \in 1..Len(sq) : sq[i] = x})
Tally(sq) == {<<x, CountOf(sq, x)>> : x \in ToSet(sq)}
Inspect_Decl(feats, limit) ==
  LET fs == Looked(feats, limit) IN
  [feature_count |-> Len(fs),
   featuretype |-> Tally([i \in 1..Len(fs) |-> fs[i].ftype]),
   chrom |-> Tally([i \in 1..Len(fs) |-> fs[i].seqid]),
   attribute_keys |-> Tally(FlatSeq([i \in 1..Len(fs) |-> fs[i].keys])),
   start |-> Tally([i \in 1..Len(fs) |-> fs[i].n - 1])]          \* feature n of a generated file starts at coordinate n - 1 (0 for the first line)
=============================================================================
