------------------------------ MODULE ApaBins ------------------------------
(* Typed wrapper for Apalache: the C12 lemmas for ALL integer coordinates in
   -4 .. 2^29+4 (so both sides of every guard), not just boundary ones.
   Checked with --length=0: each invariant is a formula over the initial state. *)
EXTENDS Bins
VARIABLES
  \* @type: Int;
  s,
  \* @type: Int;
  e,
  \* @type: Int;
  x,
  \* @type: Int;
  fs,
  \* @type: Int;
  fe,
  \* @type: Int;
  qs,
  \* @type: Int;
  qe
W == MAXC + 4
Init == /\ s \in (-4)..W /\ e \in (-4)..W /\ x \in (-2)..(MaxBin + 2)
        /\ fs \in 1..W /\ fe \in 1..W /\ qs \in 1..W /\ qe \in 1..W
Next == UNCHANGED <<s, e, x, fs, fe, qs, qe>>

OneGff      == OneBin_Decl(OneBin_Alg(s, e, "gff"), s, e, "gff")
OneBed      == OneBin_Decl(OneBin_Alg(s, e, "bed"), s, e, "bed")
NoFallGff   == FallThroughNever(s, e, "gff")
NoFallBed   == FallThroughNever(s, e, "bed")
CompleteGff == SetComplete(x, s, e, "gff")
CompleteBed == SetComplete(x, s, e, "bed")
NearGff     == SetNear(x, s, e, "gff")
NearBed     == SetNear(x, s, e, "bed")
OutGff      == SetOutOfRange(x, s, e, "gff")
OutBed      == SetOutOfRange(x, s, e, "bed")
Index       == OneInSet(fs, fe, qs, qe)
\* deliberately wrong variants: Apalache must refute them (the lemmas are not vacuous)
WrongTight  == (InRange(s, e, "gff") /\ s <= e) => LevelOf(OneBin_Alg(s, e, "gff")) <= SmallestLevel(s - 1, e - 1)
WrongNear   == (InRange(s, e, "gff") /\ s <= e /\ InSet_Alg(x, s, e, "gff")) => Meets(x, s - 1, e - 1)
=============================================================================
