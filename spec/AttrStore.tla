------------------------------ MODULE AttrStore ------------------------------
(***************************************************************************)
(* C17: the Attributes container (attributes.py), its JSON storage form    *)
(* (helpers._jsonify/_unjsonify), helpers.merge_attributes and Feature     *)
(* equality / hash (feature.py).                                           *)
(* A store is a sequence of <<key, values>> in insertion order (as in      *)
(* AttrSyntax); a value given by the caller is [scalar |-> text] or        *)
(* [list |-> Seq(text)].                                                   *)
(***************************************************************************)
EXTENDS AttrSyntax

Wrap(v) == IF "scalar" \in DOMAIN v THEN <<v.scalar>> ELSE v.list        \* a scalar becomes a one-item list
SetItem(store, k, v) == AttrSet(store, k, Wrap(v))
RECURSIVE UpdateMany(_, _)
UpdateMany(store, kvs) == IF kvs = <<>> THEN store ELSE UpdateMany(SetItem(store, Head(kvs)[1], Head(kvs)[2]), Tail(kvs))
\* attributes that arrive as a plain mapping (Feature(attributes={...}) stored by an import) or as stored JSON text may hold scalars:
\* what a Feature read from the database / built from that text shows has every scalar wrapped, keys in the same order
Load(raw) == UpdateMany(<<>>, raw)
DelItem(store, k) == SelectSeq(store, LAMBDA e : e[1] # k)

\* what __getitem__ shows: the list, or its only item when the switch is off
View(store, k, alwaysList) == LET vs == AttrGet(store, k) IN
  IF alwaysList \/ Len(vs) # 1 THEN [list |-> vs] ELSE [scalar |-> vs[1]]
ViewAll(store, alwaysList) == [i \in 1..Len(store) |-> <<store[i][1], View(store, store[i][1], alwaysList)>>]

\* Printing: the attribute column of str(feature) is Render of the STORED form - whatever the switch says (it "only changes how single-item lists
\* are viewed").  Known finding Dev_SwitchLeaksIntoPrint: the printer reads the values through item access, so with the switch off a single-item
\* list arrives as a bare string and is joined character by character ('gab' prints as 'g,a,b').
Mangle(store) == [i \in 1..Len(store) |-> <<store[i][1], IF Len(store[i][2]) = 1 THEN [j \in 1..Len(store[i][2][1]) |-> <<store[i][2][1][j]>>] ELSE store[i][2]>>]
Printed(store, sw, leak) == Render(IF leak /\ ~sw THEN Mangle(store) ELSE store, DefaultDialect, FALSE, FALSE)      \* (keep_order off: insertion order)
\* the stored (underlying) form never depends on the switch; JSON text and back is the identity incl. key order
Underlying(store) == store
JsonRoundTrip(store) == store

(* ---- merge_attributes(attr1, attr2, numeric_sort) ---- *)
CONSTANT NumTable      \* set of <<text, value>>: the texts of the model that float() accepts, with 10 * their value
IsNum(t) == \E p \in NumTable : p[1] = t
NumOf(t) == (CHOOSE p \in NumTable : p[1] = t)[2]
SortTextSeq(sq) == StableSortIdx(sq, LAMBDA i, j : LexLess(sq[i], sq[j]))
RECURSIVE SetToSorted(_)
SetToSorted(S) == IF S = {} THEN <<>> ELSE LET m == CHOOSE x \in S : \A y \in S : LexLeq(x, y) IN <<m>> \o SetToSorted(S \ {m})
NumLess(a, b) == NumOf(a) < NumOf(b) \/ (NumOf(a) = NumOf(b) /\ LexLess(a, b))      \* sorted((float(v), v))
SortValues(S, numeric) ==
  IF numeric /\ \A t \in S : IsNum(t)
  THEN LET base == SetToSorted(S) IN StableSortIdx(base, LAMBDA i, j : NumLess(base[i], base[j]))
  ELSE SetToSorted(S)
\* declarative: per key of either argument, the sorted duplicate-free union of both arguments' values
MergeKeys(a1, a2) == Dedup(AttrKeys(a1) \o AttrKeys(a2), <<>>)
ValsOf(a, k) == IF AttrHas(a, k) THEN ToSet(AttrGet(a, k)) ELSE {}
Merge_Decl(a1, a2, numeric) == [i \in 1..Len(MergeKeys(a1, a2)) |->
     LET k == MergeKeys(a1, a2)[i] IN <<k, SortValues(ValsOf(a1, k) \cup ValsOf(a2, k), numeric)>>]
\* algorithmic: copy attr1, overwrite with attr2, then extend the common keys with attr1's values, then sorted(set())
Merge_Alg(a1, a2, numeric) ==
  LET over == [i \in 1..Len(MergeKeys(a1, a2)) |-> LET k == MergeKeys(a1, a2)[i] IN
                 <<k, IF AttrHas(a2, k) THEN AttrGet(a2, k) ELSE AttrGet(a1, k)>>]
      ext == [i \in 1..Len(over) |-> LET k == over[i][1] IN
                 <<k, IF AttrHas(a1, k) /\ AttrHas(a2, k) THEN over[i][2] \o AttrGet(a1, k) ELSE over[i][2]>>]
  IN [i \in 1..Len(ext) |-> <<ext[i][1], SortValues(ToSet(ext[i][2]), numeric)>>]

(* ---- Feature equality: equal exactly when the printed lines are equal ---- *)
FeatureEq(f, g, keepf, keepg) == ToLine(f, keepf, FALSE) = ToLine(g, keepg, FALSE)
=============================================================================
