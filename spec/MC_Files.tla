------------------------------ MODULE MC_Files ------------------------------
(* C19: the file system as a function path -> database content (or Absent), create_db with and
   without force on fresh / occupied paths, and every read-style method as an action that leaves
   `files` unchanged.  Behaviours are printed for replay: the harness executes each call on real
   files, records the SQL statements issued on the handle's connection and compares the logical
   content of every file (through a fresh connection) and its bytes before and after.           *)
EXTENDS GffDB, Json
CONSTANT Depth, Gen
N(i) == <<96 + i>>
\* a source is what create_db is given: GFF3 TEXT with '##' directives (parsed in this process), or a list of Feature OBJECTS (no directives at all)
Sources == << [form |-> "text", dirs |-> <<<<100, 49>>, <<118, 32, 51>>>>,              \* "##d1", "##v 3"
               feats |-> <<MkF(N(1), T_gene, <<>>, <<>>), MkF(N(2), T_exon, <<N(1)>>, <<>>)>>],
              [form |-> "objects", dirs |-> <<>>,
               feats |-> <<MkF(N(3), T_gene, <<>>, <<>>), MkF(N(4), <<109, 82, 78, 65>>, <<N(3)>>, <<>>), MkF(N(5), T_exon, <<N(4)>>, <<>>), MkF(N(6), T_exon, <<N(4)>>, <<>>)>>],
              [form |-> "objects", dirs |-> <<>>, feats |-> <<>>] >>                                    \* an input without features: import fails
Paths == {"p1", "p2"}
Absent == [absent |-> TRUE]
Reads == {"lookup", "all_features", "features_of_type", "children", "parents", "region", "interfeatures", "create_introns",
          "merge", "children_bp", "bed12", "counts", "iter_by_parent_childs", "inspect_handle"}

VARIABLES files, open, h
vars == <<files, open, h>>
view == <<files, open, Len(h)>>
Init == files = [p \in Paths |-> Absent] /\ open = "" /\ h = <<>>

Content(k) == Create(Sources[k].feats, Sources[k].dirs, DefaultDialect, DefaultCfg)
CreateDb(p, k, force, strat) ==
  LET c == Content(k)
      occupied == files[p] # Absent
      st == IF occupied /\ ~force THEN "raise" ELSE IF c.st = "raise" THEN "raise" ELSE "ok" IN
  /\ files' = IF occupied /\ ~force THEN files
              ELSE IF c.st = "raise" THEN [files EXCEPT ![p] = [absentOrEmpty |-> TRUE]]   \* (the path was free, or force unlinked it) a failed import leaves a file without features
              ELSE [files EXCEPT ![p] = Proj(c.db)]
  /\ open' = IF st = "ok" THEN p ELSE open
  /\ h' = Append(h, [op |-> "create", path |-> p, src |-> k, feats |-> Sources[k].feats, dirs |-> Sources[k].dirs, form |-> Sources[k].form, force |-> force, strategy |-> strat, st |-> st, files |-> files'])
OpenDb(p) == /\ files[p] # Absent /\ "absentOrEmpty" \notin DOMAIN files[p]
             /\ open' = p /\ UNCHANGED files
             /\ h' = Append(h, [op |-> "open", path |-> p, st |-> "ok", files |-> files])
Read(kind) == /\ open # "" /\ files[open] # Absent /\ "absentOrEmpty" \notin DOMAIN files[open]
              /\ UNCHANGED <<files, open>>
              /\ h' = Append(h, [op |-> "read", kind |-> kind, path |-> open, st |-> "ok", files |-> files])
Next == /\ Len(h) < Depth
        /\ \/ \E p \in Paths, k \in 1..Len(Sources), f \in BOOLEAN, s \in {"error", "replace"} : CreateDb(p, k, f, s)
           \/ \E p \in Paths : OpenDb(p)
           \/ \E kind \in Reads : Read(kind)
Spec == Init /\ [][Next]_vars
Emit == (Gen /\ Len(h) = Depth) => PrintT(ToJson([h |-> h]))

IsRead == h' # h /\ h'[Len(h')].op \in {"read", "open"}
ReadsDontWrite == [][IsRead => files' = files]_vars
NoClobber == [][(h' # h /\ h'[Len(h')].op = "create" /\ ~h'[Len(h')].force /\ files[h'[Len(h')].path] # Absent) => (files' = files /\ h'[Len(h')].st = "raise")]_vars
ForceFresh == [][(h' # h /\ h'[Len(h')].op = "create" /\ h'[Len(h')].st = "ok") =>
                   /\ files'[h'[Len(h')].path] = Proj(Content(h'[Len(h')].src).db)
                   /\ \A q \in Paths \ {h'[Len(h')].path} : files'[q] = files[q]]_vars
=============================================================================
