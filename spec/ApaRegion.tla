----------------------------- MODULE ApaRegion -----------------------------
(* Apalache: soundness and completeness of the SQL-shaped selection, including the
   bin pre-filter, for ALL coordinates 1 .. 2^29+2^20 (both sides of the 2^29 guard). *)
EXTENDS RegionI
VARIABLES
  \* @type: Int;
  fs,
  \* @type: Int;
  fe,
  \* @type: Int;
  qs,
  \* @type: Int;
  qe,
  \* @type: Bool;
  w,
  \* @type: Bool;
  lim
W == MAXC + 1048576
Init == /\ fs \in 1..W /\ fe \in fs..W /\ qs \in 0..W /\ qe \in 0..W /\ w \in BOOLEAN /\ lim \in BOOLEAN
        /\ ~(qs = 0 /\ qe = 0) /\ (qs # 0 /\ qe # 0 => qs <= qe) /\ (lim => qs # 0 /\ qe # 0)
Next == UNCHANGED <<fs, fe, qs, qe, w, lim>>
SoundAll    == Sound_I(fs, fe, qs, qe, w, lim)
CompleteAll == Complete_I(fs, fe, qs, qe, w, lim)
\* non-vacuity: a pre-filter applied up to and including 2^29 (bin set {1}) would lose features
WrongGuard  == (w /\ qs # 0 /\ qe = MAXC /\ Must_I(fs, fe, qs, qe, w)) => FBin(fs, fe) = 1
=============================================================================
