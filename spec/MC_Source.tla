----------------------------- MODULE MC_Source -----------------------------
(* C13/C14 bounded instance: every sequence of <= MaxItems items over {feature, directive d1/d2,
   comment, blank, ##FASTA, > header, junk}, every checklines 0..MaxItems+1.
   Invariants: no loss / duplicate / reorder for every form; all directives before the cut
   (and none after) reach the database; the F9 deviation loses exactly those beyond the window. *)
EXTENDS Source, TLC, Json
CONSTANT MaxItems
D1 == <<100, 49>>  D2 == <<103, 102, 102, 45, 118, 101, 114, 115, 105, 111, 110, 32, 51>>     \* "d1", "gff-version 3" (wherever it stands in the file)
D3 == <<35, 110, 111, 116, 101>>      \* the line "###note" is the directive "#note"
Kinds == {"F", "D1", "D2", "D3", "D0", "C", "B", "FASTA", "H", "J"}       \* D0: the line "##" - a directive with the empty text
TypeOf(n) == IF n % 2 = 0 THEN <<103>> ELSE <<101>>
SeqOf(n) == IF n % 3 = 0 THEN <<99, 50>> ELSE <<99, 49>>
T_ID == <<73, 68>>
KeysOf(n) == IF n % 5 = 3 THEN <<>> ELSE IF n % 2 = 0 THEN <<T_ID>> ELSE <<T_ID, <<78>>>>      \* line 3 (8, ...) has an empty attributes column
\* the i-th item of a kind sequence; features are numbered by position
Item(kinds, i) == CASE kinds[i] = "F" -> [k |-> "F", f |-> [n |-> i, ftype |-> TypeOf(i), seqid |-> SeqOf(i), keys |-> KeysOf(i)]]
                    [] kinds[i] = "D1" -> [k |-> "D", t |-> D1] [] kinds[i] = "D2" -> [k |-> "D", t |-> D2] [] kinds[i] = "D3" -> [k |-> "D", t |-> D3] [] kinds[i] = "D0" -> [k |-> "D", t |-> <<>>]
                    [] OTHER -> [k |-> kinds[i]]
Items(kinds) == [i \in 1..Len(kinds) |-> Item(kinds, i)]

VARIABLES ks, cl, done
\* sequence text only occurs after a FASTA marker (before it, such a line would be a malformed feature line)
WellFormed(s) == \A i \in 1..Len(s) : s[i] = "J" => \E j \in 1..(i - 1) : s[j] \in {"FASTA", "H"}
Init == ks \in {s \in UNION {[1..n -> Kinds] : n \in 0..(MaxItems - 1)} : WellFormed(s)} /\ cl = 0 /\ done = FALSE
Next == /\ ~done /\ done' = TRUE
        /\ \E last \in Kinds \cup {"none"} : ks' = IF last = "none" THEN ks ELSE Append(ks, last)
        /\ WellFormed(ks')
        /\ cl' \in 0..(MaxItems + 1)
        /\ LET its == Items(ks') IN
           PrintT(ToJson([kinds |-> ks', cl |-> cl', feats |-> [i \in 1..Len(Features(its)) |-> Features(its)[i].n],
                          dirs |-> Directives_Decl(its), peekdirs |-> DirsSeenByPeek(its, cl'),
                          inspect2 |-> Inspect_Decl(Features(its), 2), inspect0 |-> Inspect_Decl(Features(its), 0)]))
Its == Items(ks)
Fs == Features(Its)
InvNoLoss == done => \A form \in Forms, tr \in {"none", "drop", "tag"}, S \in {{}, {1, 3}, {2}} :
                       Out_Alg(form, Fs, cl, tr, S) = Out_Decl(Fs, tr, S)
InvDirectives == done => /\ DbDirectives_Alg(Its, cl, FALSE) = Directives_Decl(Its)
                         /\ \A i \in 1..Len(Its) : (Its[i].k = "D" /\ \A j \in 1..i : Its[j].k \notin {"FASTA", "H"}) => Contains(Directives_Decl(Its), Its[i].t)
                         /\ Len(Directives_Decl(Its)) = Cardinality({i \in 1..Len(Its) : Its[i].k = "D" /\ \A j \in 1..i : Its[j].k \notin {"FASTA", "H"}})
InvNothingAfterFasta == done => \A i \in 1..Len(Its) : (\E j \in 1..i : Its[j].k \in {"FASTA", "H"}) => (Its[i].k = "F" => ~\E x \in 1..Len(Fs) : Fs[x].n = i)
\* the deviation loses something exactly when a directive lies beyond the inspected window
InvF9 == done => (DbDirectives_Alg(Its, cl, TRUE) # Directives_Decl(Its)) <=> (Len(DirsSeenByPeek(Its, cl)) < Len(Directives_Decl(Its)))
=============================================================================
