---------------------------- MODULE MC_Lossless ----------------------------
(* C08(a): print with a dialect, re-parse with the same dialect.  Values are drawn from
   character classes (one representative code point per class here; the harness
   instantiates classes with other members when it replays the cases on the code). *)
EXTENDS AttrGrammar, TLC, Json
CONSTANT Explore

\* representatives: plain, blank, tab, newline, CR, control(1), DEL, %, ;, =, &, comma, quote, hex digit, e-acute, CJK, astral, C1 control, U+2028, NBSP
Chars == {120, SP, TAB, NL, CR, 1, 127, PCT, SEMI, EQ, 38, COMMA, QT, 52, 233, 20013, 128512, 133, 8232, 160}
GtfChars == Chars \ ({SEMI, QT, COMMA, 133} \cup {TAB, NL, CR, 1, 127})
Vals(cs) == {<<c>> : c \in cs} \cup {<<c1, c2>> : c1 \in cs, c2 \in {120, SP, PCT, 52, QT}} \cup {<<PCT, 52, 49>>} \cup {<<120, c, 120>> : c \in cs}
K1 == <<107>>                       \* k
K2 == <<95, 97, 46, 98, 45, 49>>    \* _a.b-1   (word-like key with . and -)

GffDials == { [lead |-> FALSE, trail |-> t, quoted |-> q, fsep |-> fs, kvsep |-> kv, mvsep |-> <<COMMA>>, fmt |-> "gff3", rep |-> r,
               order |-> <<K1, K2>>] : t \in BOOLEAN, q \in BOOLEAN, fs \in {<<SEMI>>, <<SEMI, SP>>, <<SP, SEMI, SP>>}, kv \in {<<EQ>>, <<SP>>}, r \in BOOLEAN }
GtfDials == { [lead |-> FALSE, trail |-> t, quoted |-> q, fsep |-> fs, kvsep |-> <<SP>>, mvsep |-> <<COMMA>>, fmt |-> "gtf", rep |-> r,
               order |-> <<K1, K2>>] : t \in BOOLEAN, q \in BOOLEAN, fs \in {<<SEMI>>, <<SEMI, SP>>, <<SP, SEMI, SP>>}, r \in BOOLEAN }

VARIABLES d, a
Init == d \in GffDials \cup GtfDials /\ a = <<>>
Dom(dd) == LET vs == Vals(IF dd.fmt = "gtf" THEN GtfChars ELSE Chars) IN
           {<< <<K1, <<v>>>> >> : v \in vs} \cup {<< <<K2, <<v, w>>>> >> : v \in vs, w \in {<<120>>, <<SP, 120>>, <<PCT>>}}
           \cup {<< <<K1, <<v>>>>, <<K2, <<w>>>> >> : v \in vs, w \in {<<120>>, <<120, SP>>, <<QT, 120, QT>>}}
Next == /\ a = <<>> /\ d' = d /\ a' \in Dom(d)
        /\ PrintT(ToJson([a |-> a', d |-> d, t |-> Render(a', d, TRUE, FALSE), dom |-> LosslessDomain(a', d),
                           f10 |-> Dev_UnquotedGtfStripsEdgeBlanks(a', d)]))
\* C08(a): inside the domain, print/parse with the same dialect is the identity - except for the one named deviation
InvLossless == (a # <<>> /\ LosslessDomain(a, d) /\ ~Dev_UnquotedGtfStripsEdgeBlanks(a, d)) => Lossless(a, d)
\* and the deviation really is one: every pair it names loses something
InvF10 == (a # <<>> /\ LosslessDomain(a, d) /\ Dev_UnquotedGtfStripsEdgeBlanks(a, d)) => ~Lossless(a, d)
=============================================================================
