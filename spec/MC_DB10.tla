------------------------------ MODULE MC_DB10 ------------------------------
(* C10: histories over {update(batch, strategy), update(nothing), delete(id), add_relation, reopen,
   update whose source fails} on a file database, from three initial files (flat with a dangling
   Parent, depth-3 tree, depth-4 chain).  One action per public call.
   Variables: db, ctr (the handle's live counters), bak (content of '<file>.bak' or NoBak),
   handed (history: auto-generated keys handed out so far), h (history of calls, for generation).
   MODE "mc": invariants and action properties, h hidden by the VIEW.
   MODE "gen": every behaviour of length Depth is printed once with the expected snapshots.    *)
EXTENDS GffDB, Json
CONSTANT Depth, Gen

N(i) == <<96 + i>>      \* a b c d e f
Z == <<122>>
TN == <<110>>
Inits == << <<MkF(N(1), T_gene, <<>>, <<>>), MkF(N(2), T_exon, <<Z>>, <<>>), MkF(<<>>, T_exon, <<>>, <<>>)>>,                                  \* flat, dangling Parent=z, one auto id
            <<MkF(N(1), T_gene, <<>>, <<>>), MkF(N(2), <<109>>, <<N(1)>>, <<>>), MkF(N(3), <<109>>, <<N(1)>>, <<>>), MkF(N(4), T_exon, <<N(2)>>, <<>>)>>,  \* tree
            <<MkF(N(1), T_gene, <<>>, <<>>), MkF(N(2), <<109>>, <<N(1)>>, <<>>), MkF(N(3), T_exon, <<N(2)>>, <<>>), MkF(N(4), <<120>>, <<N(3)>>, <<>>)>> >> \* chain a<-b<-c<-d
Batches == << <<MkF(N(5), T_gene, <<>>, <<>>)>>,                                             \* fresh id
              <<MkF(<<>>, T_exon, <<>>, <<>>), MkF(<<>>, T_exon, <<N(1)>>, <<>>)>>,          \* id-less features (auto ids), one a child of a
              <<MkF(N(2), T_exon, <<Z>>, <<<<TN, <<<<50>>>>>>>>)>>,                          \* colliding id b (agrees with the flat file's b, differs elsewhere)
              <<MkF(N(6), T_exon, <<N(4)>>, <<>>)>>,                                         \* child of existing d
              <<MkF(Z, T_gene, <<>>, <<>>)>> >>                                              \* the parent named by a dangling Parent
GtfDialect == [DefaultDialect EXCEPT !.fmt = "gtf", !.kvsep = <<SP>>, !.fsep = <<SEMI, SP>>, !.quoted = TRUE, !.trail = TRUE]
GX(ft, s, e, g, t) == [MkF(<<>>, ft, <<>>, <<>>) EXCEPT !.start = s, !.end = e, !.attrs = <<<<T_gene_id, <<g>>>>, <<T_transcript_id, <<t>>>>>>]
G1 == <<103, 49>>  TA == <<116, 49>>  TB == <<116, 50>>
T_CDS == <<67, 68, 83>>
\* a GTF database: two exons of transcript t1 of gene g1 (transcript and gene are derived)
GtfInit == <<GX(T_exon, 1, 5, G1, TA), GX(T_exon, 8, 9, G1, TA)>>
GtfBatches == << <<GX(T_exon, 12, 14, G1, TA)>>,                       \* extends t1 and g1: the stored derived extents go stale (as in the code)
                 <<GX(T_exon, 3, 4, G1, TB)>>,                         \* a second transcript inside the gene
                 <<GX(T_CDS, 2, 3, G1, TA), GX(T_exon, 20, 22, <<103, 50>>, <<116, 57>>)>> >>   \* a CDS, and a new gene
IsGtf(d) == d.dialect.fmt = "gtf"
Strategies == {"error", "warning", "replace", "create_unique", "merge"}
NoBak == [none |-> TRUE]

VARIABLES db, ctr, bak, handed, h
vars == <<db, ctr, bak, handed, h>>
view == <<db, ctr, bak, handed>>

Cfg(s) == [DefaultCfg EXCEPT !.strategy = s, !.idspec = [kind |-> "default"]]
AutoKeys(d) == {d.feats[i].id : i \in {j \in 1..Len(d.feats) : \E p \in d.ctrP : IsPrefix(p[1] \o <<UNDER>>, d.feats[j].id)}}
Init == /\ \/ \E k \in 1..Len(Inits) : LET c == Create(Inits[k], <<>>, DefaultDialect, Cfg("error")) IN
                db = c.db /\ ctr = c.ctr /\ h = <<[op |-> "create", init |-> k, gtf |-> FALSE, feats |-> Inits[k], snap |-> Snap(c.st, c.db, c.ctr), bak |-> NoBak]>>
           \/ LET c == Create(GtfInit, <<>>, GtfDialect, [Cfg("error") EXCEPT !.importer = "gtf"]) IN
                db = c.db /\ ctr = c.ctr /\ h = <<[op |-> "create", init |-> 0, gtf |-> TRUE, feats |-> GtfInit, snap |-> Snap(c.st, c.db, c.ctr), bak |-> NoBak]>>
        /\ bak = NoBak /\ handed = {}

Rec(op, args, st, d, c, b) == [op |-> op, snap |-> Snap(st, d, c), bak |-> b] @@ args
NewKeys(d0, d1) == Ids(d1) \ Ids(d0)

BatchOf(b) == IF IsGtf(db) THEN GtfBatches[b] ELSE Batches[b]
DoUpdate(b, s, backup) ==
  LET r == Update(db, ctr, BatchOf(b), Cfg(s)) IN
  /\ bak' = IF backup THEN Proj(db) ELSE bak
  /\ IF r.st = "raise"
     THEN /\ UNCHANGED <<db, ctr, handed>>
          /\ h' = Append(h, Rec("update", [batch |-> b, feats |-> BatchOf(b), strategy |-> s, backup |-> backup], "raise", db, ctr, bak'))
     ELSE /\ db' = r.db /\ ctr' = r.ctr
          /\ handed' = handed \cup (r.ctr \ ctr)
          /\ h' = Append(h, Rec("update", [batch |-> b, feats |-> BatchOf(b), strategy |-> s, backup |-> backup], "ok", r.db, r.ctr, bak'))
DoUpdateEmpty ==
  /\ bak' = Proj(db) /\ UNCHANGED <<db, ctr, handed>>
  /\ h' = Append(h, Rec("update", [batch |-> 0, feats |-> <<>>, strategy |-> "error", backup |-> TRUE], "ok", db, ctr, bak'))
\* the feature source raises after k items: nothing is asserted about the database, everything about the backup
DoUpdateFails(b, k) ==
  /\ bak' = Proj(db) /\ UNCHANGED <<db, ctr, handed>>
  /\ h' = Append(h, Rec("updatefail", [batch |-> b, feats |-> BatchOf(b), failAt |-> k, strategy |-> "create_unique", backup |-> TRUE], "failed", db, ctr, bak'))
DoDelete(id, backup) ==
  /\ db' = Delete(db, {id}) /\ bak' = (IF backup THEN Proj(db) ELSE bak) /\ UNCHANGED <<ctr, handed>>
  /\ h' = Append(h, Rec("delete", [ids |-> <<id>>, backup |-> backup], "ok", db', ctr, bak'))
DoAddRel(p, c, l, rw) ==
  LET r == AddRel(db, p, c, l, rw) IN
  /\ db' = r.db /\ UNCHANGED <<ctr, bak, handed>>
  /\ h' = Append(h, Rec("addrel", [p |-> p, c |-> c, l |-> l, rewrite |-> rw], r.st, r.db, ctr, bak))
DoReopen ==
  /\ ctr' = Reopen(db) /\ UNCHANGED <<db, bak, handed>>
  /\ h' = Append(h, Rec("reopen", [x |-> 0], "ok", db, ctr', bak))

\* a history ends with a failing source, and with an add_relation that raises (the statement says nothing about the
\* handle after a failed call; the real handle is then inside an open transaction)
Terminal == h[Len(h)].op = "updatefail" \/ (h[Len(h)].op = "addrel" /\ h[Len(h)].snap.st = "raise")
Next == /\ Len(h) <= Depth /\ ~Terminal
        /\ \/ \E b \in 1..(IF IsGtf(db) THEN Len(GtfBatches) ELSE Len(Batches)), s \in Strategies, bk \in BOOLEAN : DoUpdate(b, s, bk)
           \/ DoUpdateEmpty
           \/ \E b \in (IF IsGtf(db) THEN {3} ELSE {2, 4}) : \E k \in 0..1 : DoUpdateFails(b, k)
           \* (in a GTF database only line features are deleted: after deleting a derived gene a later update that re-derives it
           \*  from a transcript without stored gene->exon rows makes the real importer fail inside _update_relations)
           \/ \E id \in {x \in Ids(db) : ~IsGtf(db) \/ Get(db, x).source # T_derived}, bk \in {TRUE} : DoDelete(id, bk)
           \/ \E p \in {N(1), N(6)}, c \in {N(4), N(2)}, l \in {1, 2}, rw \in BOOLEAN : DoAddRel(p, c, l, rw)
           \/ DoReopen
Spec == Init /\ [][Next]_vars
Bound == Len(h) <= Depth + 1
Emit == (Gen /\ (Len(h) = Depth + 1 \/ Terminal)) => PrintT(ToJson([h |-> h]))

(* ------------------------------- properties ------------------------------- *)
LastH == h[Len(h)]
\* keys are unique at all times
InvKeys == NoDup([i \in 1..Len(db.feats) |-> db.feats[i].id])
\* counters: what is persisted covers every auto-generated key handed out, and a fresh handle starts from it
InvCountersCover == \A p \in handed : CtrGet(db.ctrP, p[1]) >= p[2] /\ CtrGet(ctr, p[1]) >= p[2]
\* auto-generated keys never equal one handed out earlier (action property)
NoRecycle == [][(ctr' \ ctr) \cap handed = {}]_vars
\* second-level rows are compositions of first-level rows at the time they are inserted (F6)
Level2Sound == [][\A r \in db'.rels \ db.rels : r[3] = 2 =>
                   (LastH'.op = "addrel" \/ \E m \in Ids(db') \cup {x[2] : x \in db'.rels} : <<r[1], m, 1>> \in db'.rels /\ <<m, r[2], 1>> \in db'.rels)]_vars
\* delete removes the feature and the relations mentioning it, and nothing else
DeleteExact == [][LastH'.op = "delete" =>
                   /\ ToSet(db'.feats) = {f \in ToSet(db.feats) : f.id \notin ToSet(LastH'.ids)}
                   /\ db'.rels = {r \in db.rels : r[1] \notin ToSet(LastH'.ids) /\ r[2] \notin ToSet(LastH'.ids)}
                   /\ db'.ctrP = db.ctrP]_vars
\* update with no features changes nothing; a raising update changes nothing
EmptyIdentity == [][(LastH'.op = "update" /\ (LastH'.feats = <<>> \/ LastH'.snap.st = "raise")) => db' = db /\ ctr' = ctr]_vars
\* update only adds: no stored key disappears, no relation row disappears
UpdateMonotone == [][LastH'.op = "update" => Ids(db) \subseteq Ids(db') /\ (LastH'.strategy # "replace" => db.rels \subseteq db'.rels)
                       /\ \A p \in db.ctrP : CtrGet(db'.ctrP, p[1]) >= p[2]]_vars
\* with make_backup the .bak file holds the complete pre-operation database, also when the operation fails
BackupIsPreState == [][(LastH'.op \in {"update", "updatefail", "delete"} /\ LastH'.backup) => bak' = Proj(db)]_vars
ReadsDontTouch == [][LastH'.op = "reopen" => db' = db /\ bak' = bak]_vars
=============================================================================
