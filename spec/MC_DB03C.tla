------------------------------ MODULE MC_DB03C ------------------------------
(* Block composition for the GTF importer (the lemma behind c03's scaled GTF): importing a file followed by a copy of it whose gene and
   transcript ids are renamed gives, for the named features (genes, transcripts: derived or explicit) and for the relations, the union of
   what the file gives and its renamed image.  Line features (exon, CDS, ...) get auto-numbered keys that depend on everything before them,
   so they - and relation ends that are line features - are compared by signature (type, seqid, strand, start, end), exactly as the harness does. *)
EXTENDS MC_DB03
RenT(t) == t \o <<95, 50>>
RenLine(f) == [f EXCEPT !.attrs = [i \in 1..Len(f.attrs) |-> <<f.attrs[i][1], IF f.attrs[i][1] \in {KeyG(v), KeyT(v)} THEN <<RenT(f.attrs[i][2][1])>> ELSE f.attrs[i][2]>>]]
IsNamed(f) == f.ftype \in {T_gene, T_transcript}
Sig(f) == <<f.ftype, f.seqid, f.strand, f.start, f.end>>
NamedView(db, ren) == {<<IF ren THEN RenT(f.id) ELSE f.id, Sig(f)>> : f \in {g \in ToSet(db.feats) : IsNamed(g)}}
EndSig(db, id, ren) == LET f == Get(db, id) IN IF IsNamed(f) THEN <<"named", IF ren THEN RenT(id) ELSE id>> ELSE <<"line", Sig(f)>>
RelView(db, ren) == {<<EndSig(db, r[1], ren), EndSig(db, r[2], ren), r[3]>> : r \in {q \in db.rels : Has(db, q[1]) /\ Has(db, q[2])}}
LineSigs(db) == {Sig(f) : f \in {g \in ToSet(db.feats) : ~IsNamed(g)}}
InvBlockComposeGtf == OK =>
  LET ls == Lines(sel, v)
      two == Create(ls \o [i \in 1..Len(ls) |-> RenLine(ls[i])], <<>>, GtfDialect, Cfg(v)) IN
  /\ two.st = "ok"
  /\ Len(two.db.feats) = 2 * Len(DBF.feats)
  /\ NamedView(two.db, FALSE) = NamedView(DBF, FALSE) \cup NamedView(DBF, TRUE)
  /\ LineSigs(two.db) = LineSigs(DBF)
  /\ RelView(two.db, FALSE) = RelView(DBF, FALSE) \cup RelView(DBF, TRUE)
=============================================================================
