----------------------------- MODULE MC_Select -----------------------------
(* Sanity of the declarative layer of C11 on small databases: for every database of <= 3 features
   over mixed-case / non-ASCII seqids, numeric-looking scores and ties, every single column and
   every pair of columns, with and without reverse: a stable sort by the SQL key satisfies
   Select_Decl, and a result that swaps two differently-keyed neighbours does not (the judge is
   neither vacuous nor over-strict about ties).                                                 *)
EXTENDS Select, TLC
CONSTANT Small
Seqs == {<<99, 104, 114, 66>>, <<99, 104, 114, 97>>, <<67, 104, 114, 49>>, <<99, 104, 114, 233>>}      \* chrB chra Chr1 chr\'e
Scores == {<<49, 48>>, <<57>>, <<50, 46, 53>>, <<DOT>>}                                                 \* 10 9 2.5 .
Feat(i, sq, sc, s, e) == [id |-> <<102, 48 + i>>, rowid |-> i, seqid |-> sq, source |-> <<115>>, ftype |-> IF i = 2 THEN <<103>> ELSE <<101>>,
                          start |-> s, end |-> e, score |-> sc, strand |-> IF i = 3 THEN <<45>> ELSE <<43>>, frame |-> <<DOT>>]
VARIABLES F, q
Init == /\ \E sq \in [1..3 -> IF Small THEN {<<99, 104, 114, 66>>, <<99, 104, 114, 97>>} ELSE Seqs], sc \in [1..3 -> {<<49, 48>>, <<57>>}], s \in [1..3 -> 1..2],
             e \in [1..3 -> IF Small THEN {3} ELSE 3..4] :
             F = {Feat(i, sq[i], sc[i], s[i], e[i]) : i \in 1..3}
        /\ q = [none |-> TRUE]
Next == /\ q = [none |-> TRUE] /\ F' = F
        /\ \E o \in {<<c>> : c \in ValidCols} \cup {<<c1, c2>> : c1 \in {"seqid", "start", "length"}, c2 \in {"end", "score", "file_order"}}, r \in BOOLEAN,
              any \in BOOLEAN :
             q' = [anyType |-> any, ftypes |-> {<<101>>}, strand |-> <<>>, order |-> o, reverse |-> r]
SetToSeq3(S) == CHOOSE sq \in [1..Cardinality(S) -> S] : \A i, j \in 1..Cardinality(S) : i # j => sq[i] # sq[j]
Sorted(S, qq) == LET base == StableSortIdx(SetToSeq3(S), LAMBDA i, j : SetToSeq3(S)[i].rowid < SetToSeq3(S)[j].rowid)
                 IN StableSortIdx(base, LAMBDA i, j : ~LeqCols(base[j], base[i], qq.order, Dirs(qq)))
InvSortedAccepted == q # [none |-> TRUE] => Select_Alg(F, q, Sorted(Matching(F, q), q))
\* swapping two neighbours with different keys must be rejected
InvSwapRejected == (q # [none |-> TRUE] /\ (Len(q.order) = 1 \/ ~q.reverse)) =>
   LET s == Sorted(Matching(F, q), q) IN
   \A i \in 1..(Len(s) - 1) : ~LeqCols(s[i + 1], s[i], q.order, Dirs(q)) =>
        ~Select_Decl(F, q, [k \in 1..Len(s) |-> IF k = i THEN s[i + 1] ELSE IF k = i + 1 THEN s[i] ELSE s[k]])
=============================================================================
