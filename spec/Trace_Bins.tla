---------------------------- MODULE Trace_Bins ----------------------------
(* Judge for recorded calls of bins.bins / Feature.bin on the real code.
   Cases come from IOEnv.TRACE_FILE as a JSON array of
     [s, e, fmt, isint, one, runs, hasf, fbin, hasdb, dbbin]
     runs = maximal runs <<lo,hi>> of the returned set; fbin = Feature(start,end).bin;
     dbbin = the bin column stored by create_db (-1 sentinels where has* is FALSE)
   Verdicts are total: a disagreeing case prints a REJECT record and the run goes on. *)
EXTENDS BinsX, TLC, Json, Sequences, IOUtils

Cases == JsonDeserialize(IOEnv.TRACE_FILE)

\* maximal runs of consecutive ids of the union of the level ranges (plus bin 1)
RECURSIVE Canon(_, _, _)
Canon(rs, k, acc) ==
  IF k = 0 THEN acc
  ELSE LET r == rs[k] IN
       IF r[1] > r[2] THEN Canon(rs, k - 1, acc)
       ELSE IF acc # <<>> /\ acc[Len(acc)][2] + 1 >= r[1]
            THEN Canon(rs, k - 1, [acc EXCEPT ![Len(acc)] = <<acc[Len(acc)][1], IF r[2] > acc[Len(acc)][2] THEN r[2] ELSE acc[Len(acc)][2]>>])
            ELSE Canon(rs, k - 1, Append(acc, r))

ExpectedRuns(s, e, fmt) ==
  LET rs == SetRanges_Alg(s, e, fmt) IN
  IF rs = <<>> THEN << <<1, 1>> >>
  ELSE \* bin 1 is always in the set; level 4 (index 5) comes first in id order
       Canon(rs, NLEV, << <<1, 1>> >>)

VARIABLES i, done
Init == i \in 1..Len(Cases) /\ done = FALSE
Clause(c) ==
  IF ~c.isint THEN "one_is_integer"
  ELSE IF c.one # OneBin_Alg(c.s, c.e, c.fmt) THEN "one_value"
  ELSE IF ~OneBin_Decl(c.one, c.s, c.e, c.fmt) THEN "one_decl"
  ELSE IF c.runs # ExpectedRuns(c.s, c.e, c.fmt) THEN "set_value"
  \* a Feature's bin always equals bins(start, end); so does the stored column
  ELSE IF c.hasf /\ c.fbin # OneBin_Alg(c.s, c.e, "gff") THEN "feature_bin"
  ELSE IF c.hasdb /\ c.dbbin # OneBin_Alg(c.s, c.e, "gff") THEN "stored_bin"
  ELSE "ok"
Next == /\ ~done /\ done' = TRUE /\ i' = i
        /\ LET cl == Clause(Cases[i]) IN
           cl = "ok" \/ PrintT(ToJson([reject |-> i, clause |-> cl]))
=============================================================================
