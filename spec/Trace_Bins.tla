---------------------------- MODULE Trace_Bins ----------------------------
(* Judge for recorded calls of bins.bins / Feature.bin on the real code.
   Cases come from IOEnv.TRACE_FILE as a JSON array of
     [s, e, fmt, isint, one, runs, hasf, fbin, hasdb, dbbin]
     runs = maximal runs <<lo,hi>> of the returned set; fbin = Feature(start,end).bin;
     dbbin = the bin column stored by create_db (-1 sentinels where has* is FALSE)
   Verdicts are total: a disagreeing case prints a REJECT record and the run goes on. *)
EXTENDS BinsX, TLC, Json, Sequences, IOUtils

Cases == JsonDeserialize(IOEnv.TRACE_FILE)

\* maximal runs of consecutive ids of the union of the level ranges (plus bin 1)
RECURSIVE Canon(_, _, _)
Canon(rs, k, acc) ==
  IF k = 0 THEN acc
  ELSE LET r == rs[k] IN
       IF r[1] > r[2] THEN Canon(rs, k - 1, acc)
       ELSE IF acc # <<>> /\ acc[Len(acc)][2] + 1 >= r[1]
            THEN Canon(rs, k - 1, [acc EXCEPT ![Len(acc)] = <<acc[Len(acc)][1], IF r[2] > acc[Len(acc)][2] THEN r[2] ELSE acc[Len(acc)][2]>>])
            ELSE Canon(rs, k - 1, Append(acc, r))

ExpectedRuns(s, e, fmt) ==
  LET rs == SetRanges_Alg(s, e, fmt) IN
  IF rs = <<>> THEN << <<1, 1>> >>
  ELSE \* bin 1 is always in the set; level 4 (index 5) comes first in id order
       Canon(rs, NLEV, << <<1, 1>> >>)

\* ---- the statement (C12) on what was returned; agreement with the transcription of bins.py is reported apart ("drift") ----
Max2(x, y) == IF x > y THEN x ELSE y
Min2(x, y) == IF x < y THEN x ELSE y
Cnt(k) == MAXC \div Sz(k)                                   \* bins of level k that lie below 2^29
BlkLo(k) == Off(k)   BlkHi(k) == Off(k) + Cnt(k) - 1
\* the consecutive ids lo..hi all belong to the returned set (given as maximal runs)
Covered(lo, hi, runs) == \E r \in 1..Len(runs) : runs[r][1] <= lo /\ hi <= runs[r][2]
\* the part of a run that lies in the id block of level k
PartLo(run, k) == Max2(run[1], BlkLo(k))   PartHi(run, k) == Min2(run[2], BlkHi(k))
PartLen(run, k) == IF PartLo(run, k) <= PartHi(run, k) THEN PartHi(run, k) - PartLo(run, k) + 1 ELSE 0
SetDecl(runs, s, e, fmt) ==
  IF runs = << <<-1, -1>> >> THEN FALSE                     \* not a set of integers at all
  ELSE IF ~InRange(s, e, fmt) THEN runs = << <<1, 1>> >>    \* outside the domain: the whole-chromosome bin
  ELSE IF P0(s, fmt) > Q0(e) THEN TRUE                      \* an empty interval: the statement is silent
  ELSE LET p == P0(s, fmt)  q == Q0(e) IN
       \* contains every bin overlapping the interval
       /\ \A k \in 0..4 : Covered(Off(k) + Shr(p, k), Off(k) + Shr(q, k), runs)
       \* only bins of the scheme, and only ones overlapping the interval or the base on either side
       /\ \A r \in 1..Len(runs) :
            /\ PartLen(runs[r], 0) + PartLen(runs[r], 1) + PartLen(runs[r], 2) + PartLen(runs[r], 3) + PartLen(runs[r], 4) = runs[r][2] - runs[r][1] + 1
            /\ \A k \in 0..4 : PartLen(runs[r], k) > 0 =>
                  /\ Off(k) + Shr(Max2(p - 1, 0), k) <= PartLo(runs[r], k)
                  /\ PartHi(runs[r], k) <= Off(k) + Shr(Min2(q + 1, MAXC - 1), k)
VARIABLES i, done
Init == i \in 1..Len(Cases) /\ done = FALSE
Clause(c) ==
  IF ~c.isint THEN "one_is_integer"
  ELSE IF ~OneBin_Decl(c.one, c.s, c.e, c.fmt) THEN "one_value"          \* not a bin the statement allows
  ELSE IF ~SetDecl(c.runs, c.s, c.e, c.fmt) THEN "set_value"            \* not a set the statement allows
  \* a Feature's bin always equals bins(start, end) - of the very same code; so does the stored column
  ELSE IF c.hasf /\ (c.fbin # c.one \/ ~OneBin_Decl(c.fbin, c.s, c.e, "gff")) THEN "feature_bin"
  ELSE IF c.hasdb /\ (~OneBin_Decl(c.dbbin, c.s, c.e, "gff") \/ (c.fmt = "gff" /\ c.dbbin # c.one)) THEN "stored_bin"
  ELSE IF c.one # OneBin_Alg(c.s, c.e, c.fmt) \/ c.runs # ExpectedRuns(c.s, c.e, c.fmt) THEN "drift"
  ELSE "ok"
Next == /\ ~done /\ done' = TRUE /\ i' = i
        /\ LET cl == Clause(Cases[i]) IN
           cl = "ok" \/ PrintT(ToJson([reject |-> i, clause |-> cl]))
=============================================================================
