---------------------------- MODULE MC_Intervals ----------------------------
(* C15 / C16 on ordered lists of <= MaxN intervals over positions 1..MaxPos, with seqid / strand /
   type patterns.  Mode "inter": Inter_Alg = Inter_Decl, the N-1 law.  Mode "merge": the single pass
   satisfies the partition reading for every shipped criterion set; with the default criteria on
   grouped, start-ordered input the extents are the connected components (union lemma).           *)
EXTENDS Intervals, Json
CONSTANT MaxN, MaxPos, Mode, PrintMod
C1 == <<99, 49>>  C2 == <<99, 50>>
TEx == <<101>>  TGn == <<103>>
MCNum == {<<<<49, 48>>, 10000>>, <<<<57>>, 9000>>}
Pats == {"same", "lastSeq", "midSeq", "lastStrand", "firstStrand", "allMinus", "lastType", "sharedAttrs", "emptyVal", "midDot"}
\* "sharedAttrs": ID-less neighbours carrying IDENTICAL attributes whose values are neither sorted nor free of repeats (Parent=t2,t1; n=9,10,9)
SharedAttrs == <<<<T_Parent, <<<<116, 50>>, <<116, 49>>>>>>, <<<<110>>, <<<<57>>, <<49, 48>>, <<57>>>>>>>>
\* "emptyVal": one neighbour carries an EMPTY value among the values of a key (Note=third,) - the union keeps it
EmptyValAttrs(i) == <<<<T_ID, <<<<102, 48 + i>>>>>>, <<<<78, 111, 116, 101>>, IF i % 2 = 1 THEN <<<<116>>, <<>>>> ELSE <<<<117>>>>>>>>
Mk(i, s, e, n, pat) ==
  [id |-> <<102, 48 + i>>, seqid |-> IF (pat = "lastSeq" /\ i = n /\ n > 1) \/ (pat = "midSeq" /\ i = 2) THEN C2 ELSE C1, source |-> <<115>>,
   ftype |-> IF pat = "lastType" /\ i = n /\ n > 1 THEN TGn ELSE TEx, start |-> s, end |-> e, score |-> DOTT,
   strand |-> IF pat = "midDot" /\ i = 2 THEN DOTT                                   \* an unstranded feature among stranded ones: '.' is a strand value like any other
              ELSE IF pat = "allMinus" \/ (pat = "lastStrand" /\ i = n /\ n > 1) \/ (pat = "firstStrand" /\ i = 1 /\ n > 1) THEN MINUSS ELSE PLUS, frame |-> DOTT,
   attrs |-> IF pat = "sharedAttrs" THEN SharedAttrs ELSE IF pat = "emptyVal" THEN EmptyValAttrs(i)
             ELSE <<<<T_ID, <<<<102, 48 + i>>>>>>, <<<<110>>, <<IF i = 2 THEN <<49, 48>> ELSE <<57>>>>>>, <<T_Parent, <<<<116>>>>>>,
                    <<<<78>>, <<IF i % 2 = 1 THEN <<90, 98>> ELSE <<97, 98>>>>>>>>,        \* N=Zb / N=ab: sorted means code-point order ("Zb" before "ab")
   extra |-> <<>>]
Ivs == {<<s, e>> : s \in 1..MaxPos, e \in 1..MaxPos}
Valid(iv) == iv[1] <= iv[2]
InterCfgs == {[newtype |-> nt, mergeAttrs |-> m, numeric |-> nu, update |-> up] :
                nt \in {<<>>, T_intron}, m \in BOOLEAN, nu \in BOOLEAN, up \in {<<>>, <<<<<<110>>, <<<<122>>>>>>>>}}
CritSets == << DefaultCrits,
               <<[name |-> "seqid", th |-> 0], [name |-> "overlap_any_inclusive", th |-> 0]>>,
               <<[name |-> "exact_coordinates_only", th |-> 0], [name |-> "seqid", th |-> 0]>>,
               <<[name |-> "overlap_start_inclusive", th |-> 0], [name |-> "strand", th |-> 0]>>,
               <<[name |-> "overlap_end_threshold", th |-> 2], [name |-> "seqid", th |-> 0], [name |-> "feature_type", th |-> 0]>>,
               <<[name |-> "overlap_start_threshold", th |-> 1], [name |-> "seqid", th |-> 0]>>,
               <<[name |-> "overlap_any_threshold", th |-> 2], [name |-> "strand", th |-> 0]>>,
               <<[name |-> "overlap_end_threshold", th |-> 0], [name |-> "seqid", th |-> 0]>>,
               <<[name |-> "overlap_any_threshold", th |-> 0], [name |-> "overlap_start_threshold", th |-> 0]>>,
               <<>> >>

VARIABLES ivs, pat, k, done
Init == ivs \in UNION {[1..n -> {iv \in Ivs : Valid(iv)}] : n \in 0..(MaxN - 1)} /\ pat = "same" /\ k = 0 /\ done = FALSE
Fs(iv, p) == [i \in 1..Len(iv) |-> Mk(i, iv[i][1], iv[i][2], Len(iv), p)]
Hash(iv, p, kk) == SumSeq([i \in 1..Len(iv) |-> (iv[i][1] * 7 + iv[i][2] * 3) * i]) + kk * 5 + Len(p)
\* (agree_x: do the members of a merged output agree on column x?  Where they do not, the statement leaves the merged record's x open.)
OutViewF(o, fs) == [k2 \in 1..Len(o) |-> [seqid |-> o[k2].f.seqid, start |-> o[k2].f.start, end |-> o[k2].f.end, strand |-> o[k2].f.strand,
                                     ftype |-> o[k2].f.ftype, frame |-> o[k2].f.frame, id |-> o[k2].f.id, kids |-> o[k2].kids,
                                     agree_seqid |-> \A a, b \in ToSet(o[k2].kids) : fs[a].seqid = fs[b].seqid,
                                     agree_strand |-> \A a, b \in ToSet(o[k2].kids) : fs[a].strand = fs[b].strand,
                                     agree_ftype |-> \A a, b \in ToSet(o[k2].kids) : fs[a].ftype = fs[b].ftype]]
Next == /\ ~done /\ done' = TRUE
        /\ \E last \in {iv \in Ivs : Valid(iv)} \cup {<<>>} : ivs' = IF last = <<>> THEN ivs ELSE Append(ivs, last)
        /\ pat' \in Pats
        /\ IF Mode = "inter"
           THEN /\ k' \in 1..6
                /\ LET cfg == IF k' = 6 THEN [newtype |-> <<>>, typeGiven |-> TRUE, mergeAttrs |-> TRUE, numeric |-> FALSE, update |-> <<>>]      \* new_featuretype=""
                              ELSE CHOOSE c \in InterCfgs : c = [newtype |-> IF k' % 2 = 0 THEN <<>> ELSE T_intron, mergeAttrs |-> k' <= 3, numeric |-> k' = 2,
                                                           update |-> IF k' \in {3, 5} THEN <<<<<<110>>, <<<<122>>>>>>>> ELSE <<>>] IN
                   (Hash(ivs', pat', k') % PrintMod # 0) \/ PrintT(ToJson([feats |-> Fs(ivs', pat'), cfg |-> cfg, exp |-> Inter_Decl(Fs(ivs', pat'), cfg)]))
           ELSE /\ k' \in 1..Len(CritSets)
                /\ (Hash(ivs', pat', k') % PrintMod # 0) \/
                   PrintT(ToJson([feats |-> Fs(ivs', pat'), crits |-> CritSets[k'], exp |-> OutViewF(Merge_Alg2(Fs(ivs', pat'), CritSets[k'], {}).out, Fs(ivs', pat')),
                                  expdef |-> OutViewF(Merge_Alg2(Fs(ivs', pat'), DefaultCrits, {}).out, Fs(ivs', pat'))]))
F == Fs(ivs, pat)
ICfg == IF k = 6 THEN [newtype |-> <<>>, typeGiven |-> TRUE, mergeAttrs |-> TRUE, numeric |-> FALSE, update |-> <<>>] ELSE
        [newtype |-> IF k % 2 = 0 THEN <<>> ELSE T_intron, mergeAttrs |-> k <= 3, numeric |-> k = 2, update |-> IF k \in {3, 5} THEN <<<<<<110>>, <<<<122>>>>>>>> ELSE <<>>]   \* k = 5: update_attributes WITHOUT merge_attributes
InvInter == (done /\ Mode = "inter") => Inter_Alg(F, ICfg) = Inter_Decl(F, ICfg) /\ NMinusOne(F, ICfg)
MOut == Merge_Alg2(F, CritSets[k], {}).out
InvPartition == (done /\ Mode = "merge") => PartitionOK(F, MOut)
InvUnion == (done /\ Mode = "merge" /\ k = 1 /\ SortedGrouped(F)) => UnionLemma(F, MOut)
\* children_bp: the merged size equals the size of the union (sorted same-group intervals)
InvBp == (done /\ Mode = "merge" /\ k = 1 /\ pat = "same" /\ SortedGrouped(F) /\ F # <<>>) => ChildrenBp_Decl(F, TRUE) = UnionSize(F)
=============================================================================
