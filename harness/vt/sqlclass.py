"""Classification of SQL statements for C19 ("read-style methods issue no writes").  A write is a statement that can change the database
FILE's schema or rows.  Not writes: queries, PRAGMA reads, transaction brackets, and anything whose target is a TEMP object (a scratch table
of the connection lives in the temp database, never in the file)."""
import re

_NEUTRAL = ("SELECT", "PRAGMA", "EXPLAIN", "BEGIN", "COMMIT", "END", "ROLLBACK", "SAVEPOINT", "RELEASE", "VALUES")
_TEMP_CREATE = re.compile(r"^\s*CREATE\s+(TEMP|TEMPORARY)\s+(TABLE|VIEW|TRIGGER|INDEX)?\s*(IF\s+NOT\s+EXISTS\s+)?([\"'`\[]?)([A-Za-z_][A-Za-z_0-9.]*)", re.I)
_TARGET = re.compile(r"^\s*(?:INSERT(?:\s+OR\s+\w+)?\s+INTO|REPLACE\s+INTO|UPDATE(?:\s+OR\s+\w+)?|DELETE\s+FROM|DROP\s+(?:TABLE|VIEW|INDEX|TRIGGER)(?:\s+IF\s+EXISTS)?|"
                     r"CREATE\s+(?:UNIQUE\s+)?INDEX\s+(?:IF\s+NOT\s+EXISTS\s+)?\S+\s+ON|ALTER\s+TABLE)\s+([\"'`\[]?)([A-Za-z_][A-Za-z_0-9.]*)", re.I)


class Classifier(object):
    def __init__(self):
        self.temp = set()

    def is_write(self, stmt):
        s = stmt.strip()
        if not s:
            return False
        w = s.split(None, 1)[0].upper()
        if w in _NEUTRAL:
            return False
        if w == "WITH":
            return bool(re.search(r"\b(INSERT|UPDATE|DELETE|REPLACE)\b", s, re.I))
        m = _TEMP_CREATE.match(s)
        if m:
            self.temp.add(m.group(5).split(".")[-1].lower())
            return False
        m = _TARGET.match(s)
        if m:
            name = m.group(2).lower()
            if name.startswith("temp.") or name.split(".")[-1] in self.temp:
                return False
        return True
