"""C16 - merge, children_bp, merge_all.  Spec: Intervals.tla (Crit, Absorb, FreshCopy, MergeStep/Merge_Alg2, PartitionOK, UnionLemma, ChildrenBp_Decl,
UnionSize); MC_Intervals (mode merge); Gen_Intervals (MergeAll, children_bp)."""
import copy
import json
import os

from .. import core
from ..core import enc, dec
from .. import dbio
from . import gen_db as G
from . import iv_common as I


def real_criteria(crits):
    from gffutils import merge_criteria as mc
    out = []
    for c in crits:
        n = c["name"]
        if n.endswith("_threshold"):
            out.append(getattr(mc, n)(c["th"]))
        else:
            out.append(getattr(mc, n))
    return out


def out_view(outs, objs):
    idx = {id(o): i + 1 for i, o in enumerate(objs)}
    res = []
    for o in outs:
        kids = [idx.get(id(ch), -1) for ch in getattr(o, "children", ())]
        res.append({"seqid": enc(o.seqid), "start": o.start, "end": o.end, "strand": enc(o.strand), "ftype": enc(o.featuretype), "frame": enc(o.frame),
                    "kids": kids, "same_object": id(o) in idx, "id": o.id})
    return res


def compare(exp, got):
    """the specification's OutView against the observed one; fresh ids are compared for distinctness only"""
    if len(exp) != len(got):
        return "output_count"
    ids = []
    for e, g in zip(exp, got):
        for fld in ("seqid", "start", "end", "strand", "ftype", "frame"):
            if e[fld] != g[fld]:
                return "output_" + fld
        if e["kids"] != g["kids"]:
            return "children"
        if e["kids"]:
            if g["same_object"]:
                return "merged_output_is_an_input_object"
            ids.append(g["id"])
        elif not g["same_object"]:
            return "unmerged_input_not_yielded_itself"
    if len(set(ids)) != len(ids):
        return "merged_ids_not_distinct"
    return None


def run_merge(db, case):
    objs = [G.real_feature(f) for f in case["feats"]]
    for o, f in zip(objs, case["feats"]):
        o.id = dec(f["id"])
    before = [(str(o), copy.deepcopy(dict(o.attributes.items()))) for o in objs]
    tc = db.conn.total_changes
    crit = real_criteria(case["crits"])
    kw = {} if case["crits"] == "default" else {"merge_criteria": crit}
    try:
        got1 = out_view(list(db.merge(objs, **kw)), objs)
    except Exception as e:  # noqa
        return "raised:" + type(e).__name__, None
    bad = compare(case["exp"], got1)
    if bad:
        return bad, got1
    if [(str(o), dict(o.attributes.items())) for o in objs] != before:
        return "inputs_changed", None
    # merging the same objects again gives the same result
    try:
        got2 = out_view(list(db.merge(objs, **kw)), objs)
    except Exception as e:  # noqa
        return "second_merge_raised:" + type(e).__name__, None
    bad = compare(case["exp"], got2)
    if bad:
        return "second_merge_" + bad, got2
    # ... also with other criteria: objects that an earlier merge yielded are merged again with the default criteria
    try:
        got3 = out_view(list(db.merge(objs)), objs)
    except Exception as e:  # noqa
        return "merge_of_previously_merged_raised:" + type(e).__name__, None
    bad = compare(case["expdef"], got3)
    if bad:
        return "merge_of_previously_merged_" + bad, got3
    if db.conn.total_changes != tc:
        return "database_changed", None
    return None, got1


def check_model(ctx, m, e, k):
    import gffutils
    case = {"model": m, "lines": I.model_lines(m)}
    path = ctx.path("c16_%d.db" % (k % 8))
    try:
        d = I.build(m, path)
        for b in e["bp"]:
            fid = dec(b["id"])
            p = d.children_bp(fid, child_featuretype="exon")
            q = d.children_bp(d[fid], child_featuretype="exon", merge=True)
            if p != b["plain"]:
                ctx.violation(case, "children_bp", {"id": fid, "observed": p, "expected": b["plain"]})
            if q != b["merged"] or b["merged"] != b["union"]:
                ctx.violation(case, "children_bp_merged", {"id": fid, "observed": q, "expected": b["merged"], "union": b["union"]})
        d.conn.close()
        d = gffutils.FeatureDB(path)      # a fresh handle: children_bp(merge=True) advanced the live counters of the old one
        res = d.merge_all(exclude_components=m["exclude"])
        d.conn.close()                    # "stores": what a new connection finds after the handle is closed, without any commit of the harness
        got = G.canon_snap(dbio.proj_file(path))
        want = G.canon_snap(e["mergeall"]["db"])
        # the source of a merged feature is the joined set of its members' sources (all 's' here); bins are not compared
        orig = set(json.dumps(f["attrs"][0][1][0]) for f in m["feats"])
        for snap in (want, got):
            for f in snap["feats"]:
                if json.dumps(f["id"]) not in orig:       # a stored merged feature: only what the statement names is compared
                    f["score"] = f["source"] = f["frame"] = []
        bad = G.diff_clause(want, got)
        if len(res) != e["mergeall"]["n"]:
            bad = bad or "merge_all_result_count"
        if bad:
            ctx.violation(case, "merge_all:" + bad, {"exclude_components": m["exclude"], "expected_keys": [dec(f["id"]) for f in e["mergeall"]["db"]["feats"]],
                                                      "observed_keys": [dec(f["id"]) for f in got["feats"]]})
    except Exception as ex:  # noqa
        ctx.violation(case, "raised:" + type(ex).__name__, {"message": str(ex)[:200]})
    finally:
        if os.path.exists(path):
            os.unlink(path)
    ctx.count(I.model_lines(m), True)


def run(ctx):
    thorough = ctx.tier == "thorough"
    ctx.rule = ("D1: every ordered list of <= %s intervals over positions 1..6 x 7 seqid/strand/type patterns x 8 criteria sets (default, any-inclusive, exact, start-inclusive, "
                "three thresholds, empty) - MC_Intervals mode merge: PartitionOK, UnionLemma (default criteria on grouped sorted input = connected components), merged size = "
                "union size; one case in %d replayed through FeatureDB.merge TWICE on the same objects (outputs, children by identity, distinct fresh ids, inputs and database "
                "unchanged); D2: random gene models: children_bp(merge on/off) for every feature and merge_all(exclude_components on/off) on a file database compared row by "
                "row with the model (Gen_Intervals). Non-trivial: >= 3 intervals with a multi-member run, a non-default criterion, or the second application; distinct by case.") % (
                    "4" if thorough else "3", 5 if thorough else 11)
    import gffutils
    mc = ctx.tlc("MC_Intervals", I.MC_CFG % (4 if thorough else 3, 6, "merge", 5 if thorough else 11), expect="inv", label="merge: partition, union lemma, bp", timeout=3000)
    if not mc.ok:
        ctx.violation({"tlc": "MC_Intervals"}, "model:" + str(mc.violated), {"log": ctx.keep_log("MC_Intervals_merge", mc.out)})
        return
    with dbio.quiet():
        db = gffutils.create_db("chr1\t.\tgene\t1\t2\t.\t+\t.\tID=seed\n", ":memory:", from_string=True)
    cases = mc.json
    if len(cases) > (200000 if thorough else 40000):
        cases = ctx.rng.sample(cases, 200000 if thorough else 40000)
    for c in cases:
        bad, got = run_merge(db, c)
        if bad:
            ctx.violation({"feats": c["feats"], "crits": c["crits"], "lines": [G.gff3_line(f) for f in c["feats"]]}, bad, {"observed": got, "expected": c["exp"]})
        ctx.count((c["feats"], c["crits"]), True)
    ctx.traces += 2 * len(cases)
    ctx.extra["cases_model_checked"] = mc.distinct
    ctx.sample({"features": [G.gff3_line(f) for f in cases[-1]["feats"]], "criteria": cases[-1]["crits"], "expected_outputs": cases[-1]["exp"]})
    # D2
    models = [I.random_model(ctx.rng) for _ in range(2000 if thorough else 600)]
    exp = I.oracle(ctx, models)
    for k, (m, e) in enumerate(zip(models, exp)):
        check_model(ctx, m, e, k)
    ctx.traces += len(models)
    ctx.assumptions += ["merged outputs are compared on seqid, start, end, strand, featuretype, frame and children; their ids only for distinctness; source is not compared",
                        "merge_all stores rows in the order the runs are found; the model inserts them in the same order"]


def replay(ctx, rec):
    c = rec["case"]
    import gffutils
    if "crits" in c:
        with dbio.quiet():
            db = gffutils.create_db("chr1\t.\tgene\t1\t2\t.\t+\t.\tID=seed\n", ":memory:", from_string=True)
        mc = ctx.tlc("MC_Intervals", I.MC_CFG % (max(2, len(c["feats"])), 6, "merge", 1), label="recompute expectation")
        for j in mc.json:
            if j["feats"] == c["feats"] and j["crits"] == c["crits"]:
                return run_merge(db, j)[0] is not None
        return True
    if "model" in c:
        # re-run the model-based part on this one gene model: a fresh context collects what still disagrees
        m = c["model"]
        e = I.oracle(ctx, [m])[0]
        n0 = len(ctx.violations)
        check_model(ctx, m, e, 0)
        return len(ctx.violations) > n0
    return True
