"""C16 - merge, children_bp, merge_all.  Spec: Intervals.tla (Crit, Absorb, FreshCopy, MergeStep/Merge_Alg2, PartitionOK, UnionLemma, ChildrenBp_Decl,
UnionSize); MC_Intervals (mode merge); Gen_Intervals (MergeAll, children_bp)."""
import copy
import json
import os

from .. import core
from ..core import enc, dec
from .. import dbio
from . import gen_db as G
from . import iv_common as I


def real_criteria(crits):
    from gffutils import merge_criteria as mc
    out = []
    for c in crits:
        n = c["name"]
        if n.endswith("_threshold"):
            out.append(getattr(mc, n)(c["th"]))
        else:
            out.append(getattr(mc, n))
    return out


def out_view(outs, objs):
    idx = {id(o): i + 1 for i, o in enumerate(objs)}
    res = []
    for o in outs:
        kids = [idx.get(id(ch), -1) for ch in getattr(o, "children", ())]
        res.append({"seqid": enc(o.seqid), "start": o.start, "end": o.end, "strand": enc(o.strand), "ftype": enc(o.featuretype), "frame": enc(o.frame),
                    "kids": kids, "same_object": id(o) in idx, "id": o.id})
    return res


def compare(exp, got):
    """the specification's OutView against the observed one; fresh ids are compared for distinctness only"""
    if len(exp) != len(got):
        return "output_count"
    ids = []
    for e, g in zip(exp, got):
        if e["kids"] != g["kids"]:
            return "children" if len(e["kids"]) and len(g["kids"]) else "output_count"
        merged = bool(e["kids"])
        for fld in ("seqid", "start", "end", "strand", "ftype") + (() if merged else ("frame",)):
            if e[fld] != g[fld]:
                if merged and fld in ("seqid", "strand", "ftype") and not e.get("agree_" + fld, True):
                    continue        # the members disagree on this column: the statement does not say what the merged record carries
                return "output_" + fld
        if e["kids"]:
            if g["same_object"]:
                return "merged_output_is_an_input_object"
            ids.append(g["id"])
        elif not g["same_object"]:
            return "unmerged_input_not_yielded_itself"
    if len(set(ids)) != len(ids):
        return "merged_ids_not_distinct"
    return None


def run_merge(db, case):
    objs = [G.real_feature(f) for f in case["feats"]]
    for o, f in zip(objs, case["feats"]):
        o.id = dec(f["id"])
    before = [(str(o), copy.deepcopy(dict(o.attributes.items()))) for o in objs]
    tc = db.conn.total_changes
    crit = real_criteria(case["crits"])
    kw = {} if case["crits"] == "default" else {"merge_criteria": crit}
    try:
        got1 = out_view(list(db.merge(objs, **kw)), objs)
    except Exception as e:  # noqa
        return "raised:" + type(e).__name__, None
    bad = compare(case["exp"], got1)
    if bad:
        return bad, got1
    if [(str(o), dict(o.attributes.items())) for o in objs] != before:
        return "inputs_changed", None
    # merging the same objects again gives the same result - this time the criteria arrive as a tuple / a one-shot generator / an iterator
    # and the features as a one-shot generator (any iterable is an iterable)
    kw2 = dict(kw)
    if "merge_criteria" in kw2:
        form = (len(case["feats"]) + len(crit)) % 3
        kw2["merge_criteria"] = tuple(crit) if form == 0 else (c for c in crit) if form == 1 else iter(list(crit))
    try:
        got2 = out_view(list(db.merge((o for o in objs), **kw2)), objs)
    except Exception as e:  # noqa
        return "second_merge_raised:" + type(e).__name__, None
    bad = compare(case["exp"], got2)
    if bad:
        return "second_merge_" + bad, got2
    # ... also with other criteria: objects that an earlier merge yielded are merged again with the default criteria
    try:
        got3 = out_view(list(db.merge(objs)), objs)
    except Exception as e:  # noqa
        return "merge_of_previously_merged_raised:" + type(e).__name__, None
    bad = compare(case["expdef"], got3)
    if bad:
        return "merge_of_previously_merged_" + bad, got3
    if db.conn.total_changes != tc:
        return "database_changed", None
    # objects an earlier merge() YIELDED (some carry children from then) merged again under a criterion that never accepts: nothing joins anything,
    # so every input is yielded as itself - and "yielded unchanged with no children" means no children, not the ones of last time
    try:
        outs1 = list(db.merge(objs, **kw))
        again = list(db.merge(list(outs1), merge_criteria=[lambda acc, cur, comps: False]))
    except Exception as e:  # noqa
        return "merge_of_outputs_raised:" + type(e).__name__, None
    if len(again) != len(outs1) or any(a is not b for a, b in zip(again, outs1)):
        return "merge_of_outputs_not_yielded_themselves", None
    if any(len(getattr(o, "children", ()) or ()) for o in again):
        return "singleton_output_carries_stale_children", None
    # "fresh distinct ids": no merged output of any of the three calls on this handle carries an id that another merged output got
    mids = [g["id"] for got in (got1, got2, got3) for g in got if g["kids"]]
    if len(set(mids)) != len(mids):
        return "merged_ids_repeat_across_calls", sorted(mids)[:8]
    return None, got1


def check_model(ctx, m, e, k):
    import gffutils
    case = {"model": m, "lines": I.model_lines(m)}
    path = ctx.path("c16_%d.db" % (k % 8))
    try:
        d = I.build(m, path)
        for b in e["bp"]:
            fid = dec(b["id"])
            p = d.children_bp(fid, child_featuretype="exon")
            q = d.children_bp(d[fid], child_featuretype="exon", merge=True)
            if p != b["plain"]:
                ctx.violation(case, "children_bp", {"id": fid, "observed": p, "expected": b["plain"]})
            if q != b["merged"] or b["merged"] != b["union"]:
                ctx.violation(case, "children_bp_merged", {"id": fid, "observed": q, "expected": b["merged"], "union": b["union"]})
        d.conn.close()
        # merge_all on this model alone (a fresh handle: children_bp(merge=True) advanced the live counters of the old one); judged like the scaled
        # run: what is stored after the handle is closed, merged features by (seqid, type, strand, start, end) - their ids only have to be fresh and
        # distinct, their score / source / frame / attributes are not fixed by the statement - and relations through those signatures
        bad, detail = scaled_merge_all([m], [e], m["exclude"], path)
        if bad:
            ctx.violation(case, "merge_all:" + bad.split(":", 1)[1], dict(detail or {}, exclude_components=m["exclude"]))
    except Exception as ex:  # noqa
        ctx.violation(case, "raised:" + type(ex).__name__, {"message": str(ex)[:200]})
    finally:
        if os.path.exists(path):
            os.unlink(path)
    ctx.count(I.model_lines(m), True)


def scaled_merge_all(models, exps, exclude, path):
    """scale: the gene models whose flag is `exclude`, each moved to its own seqid (and its names suffixed), in ONE database of thousands of features;
    merge_all() groups by (seqid, featuretype, strand), so the blocks do not interact and the expectation is the union of the model's per-block
    expectations.  Merged features get ids from shared counters: features are compared by (seqid, type, strand, start, end, original id or None),
    relations through those signatures."""
    import gffutils
    feats, want_f, want_r = [], [], []
    for k, (m, e) in enumerate(zip(models, exps)):
        sq = "s%d" % k
        suf = "_%d" % k
        orig = set(dec(f["attrs"][0][1][0]) for f in m["feats"])
        for f in m["feats"]:
            g = dict(f, seqid=enc(sq), attrs=[[kk, [enc(dec(v) + suf) for v in vs]] if dec(kk) in ("ID", "Parent") else [kk, vs] for kk, vs in f["attrs"]])
            feats.append(g)
        sig = {}
        for f in e["mergeall"]["db"]["feats"]:
            i = dec(f["id"])
            sig[i] = (sq, dec(f["ftype"]), dec(f["strand"]), f["start"], f["end"], (i + suf) if i in orig else None)
            want_f.append(sig[i])
        for r in e["mergeall"]["db"]["rels"]:
            pa, ch = dec(r[0]), dec(r[1])
            if pa in sig and ch in sig:
                want_r.append((sig[pa], sig[ch], r[2]))
    names = set(dec(f["attrs"][0][1][0]) for f in feats)
    try:
        with dbio.quiet():
            db = gffutils.create_db([G.real_feature(f) for f in feats], path, force=True)
            db.conn.close()
            db = gffutils.FeatureDB(path)
            res = db.merge_all(exclude_components=exclude)
            db.conn.close()
        if len(res) != sum(e["mergeall"]["n"] for e in exps):
            return "scaled_merge_all:result_count", {"returned": len(res), "expected": sum(e["mergeall"]["n"] for e in exps)}
        if len(set(f.id for f in res)) != len(res):
            return "scaled_merge_all:merged_ids_not_distinct", None
        conn = __import__("sqlite3").connect(path)
        try:
            got = {}
            for i, sq, ft, st, s0, e0 in conn.execute("SELECT id, seqid, featuretype, strand, start, end FROM features").fetchall():
                got[i] = (sq, ft, st, s0, e0, i if i in names else None)
            rows = conn.execute("SELECT parent, child, level FROM relations").fetchall()
        finally:
            conn.close()
        if sorted(got.values(), key=repr) != sorted(want_f, key=repr):
            miss = [x for x in want_f if x not in set(got.values())][:4]
            extra = [x for x in got.values() if x not in set(want_f)][:4]
            return "scaled_merge_all:features", {"stored": len(got), "expected": len(want_f), "missing": miss, "unexpected": extra}
        gr = sorted(((got[p], got[c], l) for p, c, l in rows if p in got and c in got), key=repr)
        if gr != sorted(want_r, key=repr):
            return "scaled_merge_all:relations", {"rows": len(gr), "expected": len(want_r)}
        return None, None
    except Exception as ex:  # noqa
        return "scaled_merge_all:raised:" + type(ex).__name__, {"message": str(ex)[:200]}
    finally:
        if os.path.exists(path):
            os.unlink(path)


def run(ctx):
    thorough = ctx.tier == "thorough"
    ctx.rule = ("D1: every ordered list of <= %s intervals over positions 1..6 (thorough: 1..5) x 10 seqid/strand/type/attribute patterns x 10 criteria sets (default, any-inclusive, exact, start-inclusive, "
                "three thresholds, empty) - MC_Intervals mode merge: PartitionOK, UnionLemma (default criteria on grouped sorted input = connected components), merged size = "
                "union size; one case in %d replayed through FeatureDB.merge TWICE on the same objects (outputs, children by identity, distinct fresh ids, inputs and database "
                "unchanged); D2: random gene models: children_bp(merge on/off) for every feature and merge_all(exclude_components on/off) on a file database compared row by "
                "row with the model (Gen_Intervals). Non-trivial: >= 3 intervals with a multi-member run, a non-default criterion, or the second application; distinct by case.") % (
                    "4" if thorough else "3", 23 if thorough else 11)
    import gffutils
    mc = ctx.tlc("MC_Intervals", I.MC_CFG % ((4, 5, "merge", 23) if thorough else (3, 6, "merge", 11)), expect="inv", label="merge: partition, union lemma, bp", timeout=3000)
    if not mc.ok:
        ctx.violation({"tlc": "MC_Intervals"}, "model:" + str(mc.violated), {"log": ctx.keep_log("MC_Intervals_merge", mc.out)})
        return
    with dbio.quiet():
        db = gffutils.create_db("chr1\t.\tgene\t1\t2\t.\t+\t.\tID=seed\n", ":memory:", from_string=True)
    cases = mc.json
    if len(cases) > (200000 if thorough else 40000):
        cases = ctx.rng.sample(cases, 200000 if thorough else 40000)
    for c in cases:
        bad, got = run_merge(db, c)
        if bad:
            ctx.violation({"feats": c["feats"], "crits": c["crits"], "lines": [G.gff3_line(f) for f in c["feats"]]}, bad, {"observed": got, "expected": c["exp"]})
        ctx.count((c["feats"], c["crits"]), True)
    ctx.traces += 2 * len(cases)
    ctx.extra["cases_model_checked"] = mc.distinct
    ctx.sample({"features": [G.gff3_line(f) for f in cases[-1]["feats"]], "criteria": cases[-1]["crits"], "expected_outputs": cases[-1]["exp"]})
    # D2
    models = [I.random_model(ctx.rng) for _ in range(2000 if thorough else 600)]
    exp = I.oracle(ctx, models)
    for k, (m, e) in enumerate(zip(models, exp)):
        check_model(ctx, m, e, k)
    ctx.traces += len(models)
    # scale: all models with the same exclude_components flag in one database, each on its own seqid
    for flag in (True, False):
        idx = [k for k, m in enumerate(models) if m["exclude"] == flag][: (1500 if thorough else 320)]
        bad, detail = scaled_merge_all([models[k] for k in idx], [exp[k] for k in idx], flag, ctx.path("c16_scaled.db"))
        if bad:
            ctx.violation({"scaled_models": [models[k] for k in idx], "exclude": flag, "n_models": len(idx)}, bad, detail)
        ctx.count(("scaled_merge_all", flag, len(idx)), True)
        ctx.traces += 1
        ctx.extra["scaled_merge_all_features"] = sum(len(models[k]["feats"]) for k in idx)
    ctx.assumptions += ["merged outputs are compared on seqid, start, end, strand, featuretype, frame and children; their ids only for distinctness; source is not compared",
                        "merge_all stores rows in the order the runs are found; the model inserts them in the same order"]


def replay(ctx, rec):
    c = rec["case"]
    import gffutils
    if "crits" in c:
        with dbio.quiet():
            db = gffutils.create_db("chr1\t.\tgene\t1\t2\t.\t+\t.\tID=seed\n", ":memory:", from_string=True)
        mc = ctx.tlc("MC_Intervals", I.MC_CFG % (max(2, len(c["feats"])), 6, "merge", 1), label="recompute expectation")
        for j in mc.json:
            if j["feats"] == c["feats"] and j["crits"] == c["crits"]:
                return run_merge(db, j)[0] is not None
        return True
    if "scaled_models" in c:
        ms = c["scaled_models"]
        return scaled_merge_all(ms, I.oracle(ctx, ms), c["exclude"], ctx.path("c16_scaled_replay.db"))[0] is not None
    if "model" in c:
        # re-run the model-based part on this one gene model: a fresh context collects what still disagrees
        m = c["model"]
        e = I.oracle(ctx, [m])[0]
        n0 = len(ctx.violations)
        check_model(ctx, m, e, 0)
        return len(ctx.violations) > n0
    raise core.CannotReplay("the case could not be reconstructed from the model")
