"""C10 - update/delete/add_relation/reopen histories on file databases.  Spec: GffDB (Update, Delete, AddRel, Reopen, Finalize, CloseLevel2),
MC_DB10 (state machine, invariants + action properties, behaviour generator)."""
import gc
import json
import os

from .. import core
from ..core import enc, dec
from .. import dbio
from . import gen_db as G

PROPS = ["NoRecycle", "Level2Sound", "DeleteExact", "EmptyIdentity", "UpdateMonotone", "BackupIsPreState", "ReadsDontTouch"]
MC_CFG = ("CONSTANT Depth = %d\nCONSTANT Gen = FALSE\nCONSTANT WordNA = {}\nCONSTANT Deviations = {%s}\nSPECIFICATION Spec\nVIEW view\nCHECK_DEADLOCK FALSE\n"
          "CONSTRAINT Bound\nINVARIANT InvKeys\nINVARIANT InvCountersCover\n")
GEN_CFG = "CONSTANT Depth = %d\nCONSTANT Gen = TRUE\nCONSTANT WordNA = {}\nCONSTANT Deviations = {}\nSPECIFICATION Spec\nCHECK_DEADLOCK FALSE\nCONSTRAINT Bound\nCONSTRAINT Emit\n"
GTF_DIALECT = {"leading semicolon": False, "trailing semicolon": True, "quoted GFF2 values": True, "field separator": "; ", "keyval separator": " ",
               "multival separator": ",", "fmt": "gtf", "repeated keys": False, "order": ["ID", "Name", "gene_id", "transcript_id"]}
KNOWN_TEXT = {"F4_ReplaceKeepsStaleLinks": "update(merge_strategy='replace') keeps the level-1 relations of the replaced version"}


class SourceFails(Exception):
    pass


def failing_source(objs, k):
    for i, o in enumerate(objs):
        if i == k:
            raise SourceFails("feature source failed at item %d" % k)
        yield o
    raise SourceFails("feature source failed at the end")


def execute(hist, path):
    """run one generated behaviour on a real file database; returns one observation per call"""
    import gffutils
    import sqlite3
    from gffutils.exceptions import FeatureNotFoundError
    from gffutils.interface import assign_child
    obs = []
    db = None
    for step in hist:
        op = step["op"]
        st = "ok"
        msg = ""
        try:
            with dbio.quiet():
                if op == "create":
                    for p in (path, path + ".bak"):
                        if os.path.exists(p):
                            os.unlink(p)
                    kw = {}
                    if step.get("gtf"):
                        kw["dialect"] = dict(GTF_DIALECT)
                    db = gffutils.create_db([G.real_feature(f) for f in step["feats"]], path, merge_strategy="error", **kw)
                elif op == "update":
                    objs = [G.real_feature(f) for f in step["feats"]]
                    form = (len(obs) + len(objs)) % 3          # the same features as a list, a one-shot generator, or a DataIterator
                    data = objs if form == 0 else (o for o in objs) if form == 1 else gffutils.DataIterator(objs)
                    db.update(data, make_backup=step["backup"], merge_strategy=step["strategy"])
                elif op == "updatefail":
                    try:
                        db.update(failing_source([G.real_feature(f) for f in step["feats"]], step["failAt"]), make_backup=True,
                                  merge_strategy=step["strategy"], checklines=0)
                        st = "ok"
                    except SourceFails:
                        st = "failed"
                elif op == "delete":
                    ids = [dec(i) for i in step["ids"]]
                    form = (len(obs) + len(hist)) % 5            # an id, a Feature object, a list of Features, a one-shot iterator of ids, a generator of Features
                    arg = (ids[0] if (form == 0 and len(ids) == 1) else db[ids[0]] if (form == 1 and len(ids) == 1) else iter(list(ids)) if form == 3
                           else (db[i] for i in list(ids)) if form == 4 else [db[i] for i in ids])
                    db.delete(arg, make_backup=step["backup"])
                elif op == "addrel":
                    pa, ch = dec(step["p"]), dec(step["c"])
                    if len(obs) % 2:                             # Feature objects instead of ids (look-up failures are the same FeatureNotFoundError)
                        pa, ch = db[pa], db[ch]
                    db.add_relation(pa, ch, step["l"], child_func=assign_child if step["rewrite"] else None)
                elif op == "reopen":
                    db.conn.close()
                    db = gffutils.FeatureDB(path)
        except FeatureNotFoundError:
            st = "notfound"
        except (ValueError, sqlite3.IntegrityError, KeyError) as e:
            st = "raise"
        except Exception as e:  # noqa
            st = "other:" + type(e).__name__
            msg = str(e)[:200]
        if st != "ok":
            gc.collect()       # drop the importer's connection of a failed update NOW (it sits in a reference cycle; a partial collection would depend on allocation history)
        o = {"st": st, "db": dbio.proj_file(path), "bak": dbio.proj_file(path + ".bak") if os.path.exists(path + ".bak") else None, "msg": msg}
        obs.append(o)
        if op == "updatefail" or (op == "addrel" and st == "raise"):
            break
    if db is not None:
        try:
            db.conn.close()
        except Exception:  # noqa
            pass
    return obs


def run_case(args):
    hist, path = args
    try:
        return execute(hist, path)
    finally:
        for p in (path, path + ".bak"):
            if os.path.exists(p):
                os.unlink(p)


def first_mismatch(hist, obs):
    """index and clause of the first step whose observation differs from the specification's snapshot"""
    for k, (step, o) in enumerate(zip(hist, obs)):
        exp = step["snap"]
        if o["st"] != exp["st"]:
            return k, "status:%s_vs_%s%s" % (o["st"], exp["st"], (" (" + o.get("msg", "") + ")") if o.get("msg") else "")
        if step["op"] != "updatefail":
            d = G.diff_clause(G.canon_snap(exp["db"]), G.canon_snap(o["db"]))
            if d:
                return k, d
        if "none" in step["bak"]:
            if o["bak"] is not None:
                return k, "unexpected_backup"
        else:
            if o["bak"] is None:
                return k, "backup_missing"
            d = G.diff_clause(G.canon_snap(step["bak"]), G.canon_snap(o["bak"]))
            if d:
                return k, "backup_" + d
    if len(obs) < len(hist) and not (hist[len(obs) - 1]["op"] == "addrel" and obs[-1]["st"] == "raise"):
        return len(obs), "history_stopped"
    return None


def to_model_hist(hist):
    steps = []
    for s in hist[1:]:
        if s["op"] == "update":
            steps.append({"op": "update", "feats": s["feats"], "cfg": dict(G.DEFAULT_CFG, strategy=s["strategy"]), "backup": s["backup"]})
        elif s["op"] == "updatefail":
            steps.append({"op": "updatefail", "feats": s["feats"], "cfg": G.DEFAULT_CFG, "backup": True})
        elif s["op"] == "delete":
            steps.append({"op": "delete", "ids": s["ids"], "backup": s["backup"]})
        elif s["op"] == "addrel":
            steps.append({"op": "addrel", "p": s["p"], "c": s["c"], "l": s["l"], "rewrite": s["rewrite"]})
        else:
            steps.append({"op": "reopen"})
    dflt = dict(G.DEFAULT_CFG, idspec={"kind": "default"})
    for st in steps:
        if "cfg" in st:
            st["cfg"] = dict(st["cfg"], idspec={"kind": "default"})
    return {"init": {"feats": hist[0]["feats"], "cfg": dflt, "dirs": [], "gtf": bool(hist[0].get("gtf"))}, "steps": steps, "rel": False}


def describe(hist):
    out = []
    for s in hist:
        if s["op"] in ("create", "update", "updatefail"):
            out.append({"op": s["op"], "lines": [G.gff3_line(f) for f in s["feats"]], "strategy": s.get("strategy"), "backup": s.get("backup"), "failAt": s.get("failAt")})
        elif s["op"] == "delete":
            out.append({"op": "delete", "ids": [dec(i) for i in s["ids"]]})
        elif s["op"] == "addrel":
            out.append({"op": "add_relation", "parent": dec(s["p"]), "child": dec(s["c"]), "level": s["l"], "rewrite": s["rewrite"]})
        else:
            out.append({"op": "reopen"})
    return out


def judge(ctx, hists, observed, label):
    bad = [(i, first_mismatch(h, o)) for i, (h, o) in enumerate(zip(hists, observed))]
    bad = [(i, m) for i, m in bad if m]
    if not bad:
        return
    explained = {}
    for name in core.known_names("C10"):
        sub = [to_model_hist(hists[i]) for i, _ in bad]
        exp2 = G.model(ctx, sub, deviations=[name], label="second judgement with %s (%s)" % (name, label))
        for (i, m), e2 in zip(bad, exp2):
            h2 = []
            for k, s0 in enumerate(hists[i]):
                if k >= len(e2["traj"]):
                    break
                t = e2["traj"][k]
                h2.append(dict(s0, snap={"st": t["st"], "db": t["db"]}, bak=t["bak"]))
            if len(observed[i]) > len(h2):
                continue
            if i not in explained and first_mismatch(h2, observed[i]) is None:
                explained[i] = name
    for i, (k, clause) in bad:
        if i in explained:
            ctx.known_finding(explained[i], KNOWN_TEXT.get(explained[i], explained[i]))
        else:
            ctx.violation({"history": describe(hists[i]), "raw": hists[i]}, "step%d:%s" % (k, clause), {"step": describe(hists[i])[k] if k < len(hists[i]) else None})


def nontrivial(h):
    kinds = set()
    writers = 0
    for k, s in enumerate(h[1:]):
        if s["op"] in ("update", "delete", "addrel", "updatefail"):
            writers += 1
            kinds.add(s["op"])
    reopen_between = any(s["op"] == "reopen" for s in h[1:-1])
    return (writers >= 2 and len(kinds) >= 2) or reopen_between or any(s["op"] == "updatefail" for s in h)


def run(ctx):
    thorough = ctx.tier == "thorough"
    depth = 4 if thorough else 3
    ctx.rule = ("TLC explores every history of <= %d calls over {update(5 batches x 5 strategies x backup), update(nothing), update with a source failing at item 0/1, "
                "delete(each stored id), add_relation(8 argument tuples, with/without child rewrite), reopen} from 3 GFF3 initial files and one GTF database (derived transcript/gene, re-derivation on update) (invariants InvKeys, InvCountersCover; "
                "action properties %s). Behaviours of length 2 (all, sampled in quick) and seeded -simulate behaviours of length 7 are executed on a real file database; after "
                "EVERY call the file and its .bak are projected through fresh connections and compared with the specification's snapshots. Non-trivial: >= 2 writer calls "
                "of different kinds, a reopen between calls, or a failing source; distinct by the whole history.") % (depth, ", ".join(PROPS))
    mc = ctx.tlc("MC_DB10", MC_CFG % (depth, "") + "".join("PROPERTY %s\n" % p for p in PROPS), expect="inv", label="all histories to depth %d" % depth, timeout=3000)
    if not mc.ok:
        ctx.violation({"tlc": "MC_DB10"}, "model:" + str(mc.violated), {"log": ctx.keep_log("MC_DB10", mc.out)})
        return
    # the F6 deviation (level 2 composed from rows of any level) must break Level2Sound: the property is not vacuous
    dv = ctx.tlc("MC_DB10", MC_CFG % (2, '"F6_Level2FromAnyLevel"') + "PROPERTY Level2Sound\n", expect="inv", label="deviation F6 must break Level2Sound")
    ctx.extra["deviation_F6_breaks"] = dv.violated
    if dv.violated != "Level2Sound":
        ctx.violation({"deviation": "F6_Level2FromAnyLevel"}, "model:deviation_not_a_defect", {"violated": dv.violated})
    gen = ctx.tlc("MC_DB10", GEN_CFG % 2, label="behaviours of length 2")
    hists = [j["h"] for j in gen.json]
    if not thorough:
        hists = ctx.rng.sample(hists, 2500)
    sim = ctx.tlc("MC_DB10", GEN_CFG % 6, simulate="num=%d" % (40 if thorough else 8), depth=8, workers=1,
                  extra=["-seed", str(ctx.seed)], label="simulated behaviours of length 7", expect="inv")
    deep = [j["h"] for j in sim.json]
    if len(deep) > (2500 if thorough else 400):
        deep = ctx.rng.sample(deep, 2500 if thorough else 400)
    hists = hists + deep
    work = [(h, ctx.path("c10_%d.db" % k)) for k, h in enumerate(hists)]
    observed = core.pmap(run_case, work)
    judge(ctx, hists, observed, "D1")
    for h in hists:
        ctx.count(describe(h), nontrivial(h))
    ctx.traces += len(hists)
    # the lemma the scaled history rests on: two disjoint blocks in one database, one delete / one update over both = the union of the blocks' results
    lem = ctx.tlc("MC_Compose10", "CONSTANT WordNA = {}\nCONSTANT Deviations = {}\nINIT Init\nNEXT Next\nCHECK_DEADLOCK FALSE\nINVARIANT InvCompose\n", expect="inv",
                  label="block composition of create / delete / update", workers=2)
    ctx.extra["block_compose_history"] = lem.violated or "holds"
    if not lem.ok:
        ctx.violation({"tlc": "MC_Compose10"}, "model:" + str(lem.violated), {"log": ctx.keep_log("MC_Compose10", lem.out)})
    # scale: one delete() / update() call over thousands of names
    for n in ([700, 2500] if thorough else [700]):
        bad, detail = scaled_history(ctx, n, ctx.path("c10_scaled.db"))
        if bad:
            ctx.violation({"scaled_blocks": n, "history": "create 4n features; delete(2n ids); update(2n features); reopen"}, bad, detail)
        ctx.count(("scaled", n), True)
        ctx.traces += 1
    ctx.extra["behaviours_depth2"] = len(hists) - len(deep)
    ctx.extra["behaviours_simulated"] = len(deep)
    ctx.sample({"history": describe(deep[0] if deep else hists[0])})
    ctx.assumptions += ["file databases only; live counters are observed through the keys they produce and through the autoincrements table",
                        "after an update whose source fails only the .bak file is asserted (the statement says nothing else about that state) and the history ends"]


def scaled_history(ctx, n, path):
    """scale: n disjoint blocks a <- b <- {c, d}; ONE delete() call removes b and c of every block (2n ids), ONE update() re-adds every b (Parent=a) and adds
    e (Parent=b), then the file is reopened.  The expectation of a block comes from the model (Gen_DB); blocks with disjoint names do not interact
    (MC_DB02!InvBlockCompose for imports; delete and update act per name), so the expectation of the whole is the union of the renamed blocks."""
    import gffutils
    a = G.feat("gene", 1, 100, [("ID", ["a"])])
    b = G.feat("mRNA", 1, 100, [("ID", ["b"]), ("Parent", ["a"])])
    c = G.feat("exon", 1, 10, [("ID", ["c"]), ("Parent", ["b"])])
    d = G.feat("exon", 20, 30, [("ID", ["d"]), ("Parent", ["b"])])
    e = G.feat("exon", 40, 50, [("ID", ["e"]), ("Parent", ["b"])])
    cfg = dict(G.DEFAULT_CFG, idspec={"kind": "default"})
    hist = {"init": {"feats": [a, b, c, d], "cfg": cfg, "dirs": [], "gtf": False}, "rel": False,
            "steps": [{"op": "delete", "ids": [enc("b"), enc("c")], "backup": False}, {"op": "update", "feats": [b, e], "cfg": cfg, "backup": False}, {"op": "reopen"}]}
    traj = G.model(ctx, [hist], label="one block of the scaled history", workers=1)[0]["traj"]

    def ren(f, k):
        return dict(f, attrs=[[kk, [enc(dec(v) + "_%d" % k) for v in vs]] if dec(kk) in ("ID", "Parent") else [kk, vs] for kk, vs in f["attrs"]])

    def expected(t):
        feats = sorted((dec(f["id"]) + "_%d" % k, dec(f["ftype"]), f["start"], f["end"]) for k in range(n) for f in t["db"]["feats"])
        rels = sorted((dec(r[0]) + "_%d" % k, dec(r[1]) + "_%d" % k, r[2]) for k in range(n) for r in t["db"]["rels"])
        return feats, rels

    def observed():
        conn = __import__("sqlite3").connect(path)
        try:
            feats = sorted(conn.execute("SELECT id, featuretype, start, end FROM features").fetchall())
            rels = sorted(conn.execute("SELECT parent, child, level FROM relations").fetchall())
            return [tuple(x) for x in feats], [tuple(x) for x in rels]
        finally:
            conn.close()
    try:
        with dbio.quiet():
            db = gffutils.create_db([G.real_feature(ren(f, k)) for k in range(n) for f in (a, b, c, d)], path, force=True)
        steps = [("create", None)]
        for stage, t in enumerate(traj):
            if stage == 1:
                with dbio.quiet():
                    db.delete(["%s_%d" % (x, k) for k in range(n) for x in ("b", "c")], make_backup=False)
            elif stage == 2:
                with dbio.quiet():
                    db.update([G.real_feature(ren(f, k)) for k in range(n) for f in (b, e)], make_backup=False)
            elif stage == 3:
                db.conn.close()
                db = gffutils.FeatureDB(path)
            ef, er = expected(t)
            of, orl = observed()
            if of != ef:
                return "scaled_step%d:feature_keys" % stage, {"stored": len(of), "expected": len(ef), "first_difference": [x for x in of if x not in set(ef)][:3] + [x for x in ef if x not in set(of)][:3]}
            if orl != er:
                return "scaled_step%d:relations" % stage, {"rows": len(orl), "expected": len(er), "unexpected": [x for x in orl if x not in set(er)][:5], "missing": [x for x in er if x not in set(orl)][:5]}
        db.conn.close()
        return None, None
    except Exception as ex:  # noqa
        return "scaled:raised:" + type(ex).__name__, {"message": str(ex)[:200]}
    finally:
        for p in (path, path + ".bak"):
            if os.path.exists(p):
                os.unlink(p)


def replay(ctx, rec):
    if "scaled_blocks" in rec["case"]:
        return scaled_history(ctx, rec["case"]["scaled_blocks"], ctx.path("c10_scaled_replay.db"))[0] is not None
    raw = rec["case"].get("raw")
    if not raw:
        raise core.CannotReplay("no executable case in this replay file")
    o = run_case((raw, ctx.path("replay.db")))
    n0 = len(ctx.violations)
    judge(ctx, [raw], [o], "replay")
    return len(ctx.violations) > n0
