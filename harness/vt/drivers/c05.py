"""C05 - merge strategies.  Spec: GffDB!Collide / MergeAttrs / MergeFields / GffLine / Update; MC_DB05; Gen_DB."""
import json
import os

from .. import core
from ..core import enc, dec
from .. import dbio
from . import gen_db as G

INVS = ["InvError", "InvNoRaise", "InvParentsKept", "InvWarning", "InvReplace", "InvUnique", "InvMerge", "InvLinks", "InvLinksReplace", "InvOneCandidate"]
MC_CFG = "CONSTANT MaxArr = %d\nCONSTANT Wide = %s\nCONSTANT Quick = %s\nCONSTANT PrintMod = %d\nCONSTANT Importer = \"%s\"\nCONSTANT WordNA = {}\nCONSTANT Deviations = {%s}\nINIT Init\nNEXT Next\nCHECK_DEADLOCK FALSE\n"
# deviation -> the invariant TLC must report when it is switched on (documents why the behaviour is a defect)
DEV_BREAKS = {"F2_ForceMergeJoinsJoined": "InvMerge", "F3_WarningLinksIgnoredLine": "InvLinksAll",
              "F4_ReplaceKeepsStaleLinks": "InvLinksAll", "F15_MergeLinksOriginalKey": "InvLinksAll"}
GTF_DIALECT = {"leading semicolon": False, "trailing semicolon": True, "quoted GFF2 values": True, "field separator": "; ", "keyval separator": " ",
               "multival separator": ",", "fmt": "gtf", "repeated keys": False, "order": ["ID", "Name", "gene_id", "transcript_id"]}
KNOWN_TEXT = {"F4_ReplaceKeepsStaleLinks": "merge_strategy='replace' keeps the level-1 relations of the replaced versions (Parent links of features that are no longer stored)"}


def execute(init_feats, cfg, steps, dbfn):
    """create_db from Feature objects, then the update steps; returns list of (raised, projection)"""
    import gffutils
    out = []
    kw = G.real_kwargs(cfg)
    if cfg.get("importer") == "gtf":
        kw["dialect"] = dict(GTF_DIALECT)
    objs = [G.real_feature(f) for f in init_feats]
    try:
        with dbio.quiet():
            db = gffutils.create_db(objs, dbfn, force=True, **kw)
        first = dbio.proj_db(db.conn)
        out.append((None, first))
    except Exception as e:  # noqa
        return [(type(e).__name__, None)]
    for s in steps:
        try:
            with dbio.quiet():
                db.update([G.real_feature(f) for f in s["feats"]], make_backup=False, **G.real_kwargs(s["cfg"]))
            out.append((None, dbio.proj_db(db.conn)))
        except Exception as e:  # noqa
            out.append((type(e).__name__, None))
            break
    return out


def run_reuse(args):
    """the caller's Feature objects are the caller's: import them with 'merge', then import THE SAME OBJECTS into another database with 'create_unique';
    the second database must be what 'create_unique' makes of the features as the caller wrote them"""
    import gffutils
    h = args
    objs = [G.real_feature(f) for f in h["init"]["feats"]]
    try:
        with dbio.quiet():
            gffutils.create_db(objs, ":memory:", **G.real_kwargs(dict(h["init"]["cfg"], strategy="merge")))
            db = gffutils.create_db(objs, ":memory:", **G.real_kwargs(h["init"]["cfg"]))
        return [(None, dbio.proj_db(db.conn))]
    except Exception as e:  # noqa
        return [(type(e).__name__, None)]


def to_hist(c):
    k = c["split"]
    arrs = c["arrs"]
    gtf = c["cfg"].get("importer") == "gtf"
    if k == 0:
        return {"init": {"feats": c["parents"] + arrs, "cfg": c["cfg"], "dirs": [], "gtf": gtf}, "steps": [], "rel": False}
    return {"init": {"feats": c["parents"] + arrs[:k], "cfg": c["cfg"], "dirs": [], "gtf": gtf},
            "steps": [{"op": "update", "feats": arrs[k:], "cfg": c["cfg"]}], "rel": False}


def run_case(args):
    h, dbfn = args
    try:
        return execute(h["init"]["feats"], h["init"]["cfg"], h["steps"], dbfn)
    finally:
        if dbfn != ":memory:" and os.path.exists(dbfn):
            os.unlink(dbfn)


FIELD_KEY = {"seqid": "seqid", "source": "source", "featuretype": "ftype", "score": "score", "strand": "strand", "frame": "frame"}


def set_valued(snap, fmf):
    """a column named in force_merge_fields holds "the comma-joined SET of values seen": the order of the parts is not part of the statement"""
    for f in snap["feats"]:
        for name in fmf:
            k = FIELD_KEY.get(name)
            if k and isinstance(f.get(k), list):
                f[k] = enc(",".join(sorted(dec(f[k]).split(","))))
    return snap


def mismatch(exp_final, obs, fmf=()):
    """compare the final state (and the raise status) of an executed history with the model's snapshot"""
    raised, snap = obs[-1]
    if exp_final["st"] == "raise":
        return None if raised is not None else "not_raised"
    if raised is not None:
        return "raised:" + raised
    return G.diff_clause(set_valued(G.canon_snap(exp_final["db"]), fmf), set_valued(G.canon_snap(snap), fmf))


def judge_all(ctx, hists, finals, observed, label):
    """first judgement against the intended model, second against the model with the known deviations"""
    bad = []
    for i, (e, o) in enumerate(zip(finals, observed)):
        m = mismatch(e, o, hists[i]["init"]["cfg"]["fmf"])
        if m:
            bad.append((i, m))
    if not bad:
        return
    known = core.known_names("C05")
    explained = {}
    if known:
        sub = [hists[i] for i, _ in bad]
        for name in known:
            exp2 = G.model(ctx, sub, deviations=[name], label="second judgement with %s (%s)" % (name, label))
            for (i, m), e2 in zip(bad, exp2):
                if i not in explained and mismatch(e2["traj"][-1], observed[i], hists[i]["init"]["cfg"]["fmf"]) is None:
                    explained[i] = name
    for i, m in bad:
        if i in explained:
            ctx.known_finding(explained[i], KNOWN_TEXT.get(explained[i], explained[i]))
        else:
            h = hists[i]
            ctx.violation({"init": h["init"], "steps": h["steps"], "reuse_after_merge": bool(h.get("reuse_after_merge")),
                           "lines": [G.gff3_line(f) for f in h["init"]["feats"]] + ["# update:"] * bool(h["steps"]) + [G.gff3_line(f) for s in h["steps"] for f in s["feats"]]},
                          m, {"strategy": h["init"]["cfg"]["strategy"], "force_merge_fields": h["init"]["cfg"]["fmf"]})


def random_hists(rng, n):
    hists = []
    for _ in range(n):
        strat = rng.choice(["warning", "replace", "create_unique", "merge", "merge", "error"])
        fmf = rng.choice([[], [], ["source"], ["source", "score"], ["strand"]])
        cfg = dict(G.DEFAULT_CFG, strategy=strat, fmf=fmf)
        parents = ["p%d" % i for i in range(3)]
        feats = [G.feat("gene", 1, 100, [("ID", [p])]) for p in parents]
        keys = ["K", "L"] if rng.random() < 0.7 else ["K", "K ", "k"]      # keys that differ only by a trailing blank or in case are different keys
        arr = []
        for _ in range(rng.randint(2, 9)):
            attrs = [("ID", [rng.choice(keys)]), ("n", [str(rng.randint(1, 4))])]
            if rng.random() < 0.6:
                attrs.append(("Parent", rng.sample(parents, rng.choice([1, 1, 2]))))
            if rng.random() < 0.3:
                attrs.append(("Note", [rng.choice(["x", "y"]), rng.choice(["x", "z"])][: rng.choice([1, 2])]))
            if rng.random() < 0.3:      # the same VALUE under two keys of one feature (Name equal to the ID, Alias equal to n)
                attrs.append(("Name", [attrs[0][1][0]] + ([attrs[1][1][0]] if rng.random() < 0.5 else [])))
            if rng.random() < 0.25:     # attribute keys that are also names of columns / of Feature fields
                attrs.append((rng.choice(["source", "score", "strand", "seqid", "featuretype", "frame", "id", "extra", "bin"]), [rng.choice(["curated", "predicted", "7"])]))
            zero = rng.random() < 0.12        # a zero-length feature (end = start - 1): len(feature) == 0, still a feature like any other
            arr.append(G.feat("exon", 10 if zero else rng.choice([1, 1, 2, 3]), 9, attrs, source=rng.choice(["s", "s", "t", "u"]),
                              strand=rng.choice(["+", "+", "-"]), score=rng.choice([".", ".", "5"])))
        k = rng.choice([0, 0, 1, 2])
        k = min(k, len(arr) - 1)
        init = feats + (arr if k == 0 else arr[:k])
        steps = []
        rest = [] if k == 0 else arr[k:]
        while rest:
            m = rng.randint(1, len(rest))
            steps.append({"op": "update", "feats": rest[:m], "cfg": cfg})
            rest = rest[m:]
        hists.append({"init": {"feats": init, "cfg": cfg, "dirs": []}, "steps": steps, "rel": False})
    return hists


def run(ctx):
    thorough = ctx.tier == "thorough"
    ctx.rule = ("D1: after two parent features, every sequence of 1..3 features with the same key (column vector A / different start / different source [/ different strand]; "
                "attribute n=1|2; Parent none|p1|p2) x 5 strategies x force_merge_fields {none, source[, source+strand]} x arrival split between create_db and update "
                "(MC_DB05 with per-strategy declarative invariants, InvLinks, OneCandidate); every case executed from Feature objects and compared row by row "
                "(attribute values as sets); D2: random longer collision sequences over two keys with several updates (Gen_DB). Non-trivial: >= 2 arrivals under one key "
                "(>= 3 for merge/create_unique); distinct by (arrivals, strategy, fields, split).")
    cfg = MC_CFG % (3, "TRUE" if thorough else "FALSE", "FALSE" if thorough else "TRUE", 3 if thorough else 19, "gff3", "")
    mc = ctx.tlc("MC_DB05", cfg + "".join("INVARIANT %s\n" % i for i in INVS), expect="inv", label="arrivals x strategies x fields x split", timeout=3000)
    if not mc.ok:
        ctx.violation({"tlc": "MC_DB05"}, "model:" + str(mc.violated), {"log": ctx.keep_log("MC_DB05", mc.out)})
        return
    # each deviation, switched on, must break the invariant it is recorded against
    devres = {}
    for dev, inv in sorted(DEV_BREAKS.items()):
        r = ctx.tlc("MC_DB05", MC_CFG % (3, "FALSE", "TRUE", 1000003, "gff3", '"%s"' % dev) + "INVARIANT %s\n" % inv, expect="inv", label="deviation %s must break %s" % (dev, inv))
        devres[dev] = r.violated
        if r.violated != inv:
            ctx.violation({"deviation": dev}, "model:deviation_not_a_defect", {"violated": r.violated})
    ctx.extra["deviations_break"] = devres
    # the GTF importer resolves collisions through the same code path: gene lines keyed by gene_id
    mg = ctx.tlc("MC_DB05", MC_CFG % (3 if thorough else 2, "FALSE", "TRUE", 5 if thorough else 2, "gtf", "") + "".join("INVARIANT %s\n" % i for i in INVS if "Links" not in i) + "INVARIANT InvGtfRels\n",
                 expect="inv", label="the same arrivals through the GTF importer", timeout=3000)
    if not mg.ok:
        ctx.violation({"tlc": "MC_DB05 gtf"}, "model:" + str(mg.violated), {"log": ctx.keep_log("MC_DB05_gtf", mg.out)})
        return
    cases = mc.json + mg.json
    ctx.exhaustive = False
    ctx.extra['cases_model_checked'] = mc.distinct + mg.distinct
    hists = [to_hist(c) for c in cases]
    work = [(h, ":memory:") for h in hists]
    observed = core.pmap(run_case, work)
    judge_all(ctx, hists, [c["snap"] for c in cases], observed, "D1")
    for c in cases:
        n = len(c["arrs"])
        ctx.count((c["arrs"], c["cfg"]["strategy"], c["cfg"]["fmf"], c["split"]), n >= 3 if c["cfg"]["strategy"] in ("merge", "create_unique") else n >= 2)
    ctx.traces += len(cases)
    c0 = cases[0]
    ctx.sample({"lines": [G.gff3_line(f) for f in c0["parents"] + c0["arrs"]], "strategy": c0["cfg"]["strategy"], "force_merge_fields": c0["cfg"]["fmf"],
                "split": c0["split"], "expected_keys": [dec(f["id"]) for f in c0["snap"]["db"]["feats"]], "expected_status": c0["snap"]["st"]})
    # D1b: objects re-used after a 'merge' import
    reuse = []
    for h in hists:
        if h["init"]["cfg"]["strategy"] == "merge" and not h["steps"] and not h["init"].get("gtf") and len(reuse) < (3000 if thorough else 500):
            reuse.append({"init": dict(h["init"], cfg=dict(h["init"]["cfg"], strategy="create_unique")), "steps": [], "rel": False, "reuse_after_merge": True})
    if reuse:
        exp2 = G.model(ctx, reuse, label="the same objects imported again with create_unique")
        obs2 = core.pmap(run_reuse, reuse)
        judge_all(ctx, reuse, [e["traj"][0] for e in exp2], obs2, "D1b")
        ctx.traces += len(reuse)
    # D2 (file databases here: update opens a second connection on them)
    rh = random_hists(ctx.rng, 4000 if thorough else 500)
    exp = G.model(ctx, rh, label="random collision histories")
    obs = core.pmap(run_case, [(h, ctx.path("c05_%d.db" % k)) for k, h in enumerate(rh)])
    finals = []
    for e, o in zip(exp, obs):
        # compare at the step where the execution stopped (a raising update ends the real history)
        finals.append(e["traj"][len(o) - 1])
    judge_all(ctx, rh, finals, obs, "D2")
    for h in rh:
        ctx.count(h, True)
    ctx.traces += len(rh)
    ctx.assumptions += ["inputs are Feature objects; attribute values of merged features are compared as sets, attribute keys as sets",
                        "a raising update ends the history (only the raise is compared for it)"]


def replay(ctx, rec):
    c = rec["case"]
    if "init" not in c:
        raise core.CannotReplay("no executable case in this replay file")
    h = {"init": c["init"], "steps": c["steps"], "rel": False}
    e = G.model(ctx, [h], workers=1)[0]
    o = run_reuse(h) if c.get("reuse_after_merge") else execute(h["init"]["feats"], h["init"]["cfg"], h["steps"], ":memory:")
    m = mismatch(e["traj"][len(o) - 1], o, h["init"]["cfg"]["fmf"])
    if not m:
        return False
    for name in core.known_names("C05"):
        e2 = G.model(ctx, [h], deviations=[name], workers=1)[0]
        if mismatch(e2["traj"][len(o) - 1], o, h["init"]["cfg"]["fmf"]) is None:
            print("KNOWN-FINDING: property=C05 %s" % name)
            return False
    return True
