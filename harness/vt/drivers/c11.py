"""C11 - featuretype/strand filters, ordering, counts.  Spec: Select.tla (Select_Decl / Select_Alg, LeqCols); MC_Select; judge Trace_Select."""
import json

from .. import core
from ..core import enc, dec
from .. import dbio
from . import gen_db as G
from . import handle_common as H

MC_CFG = "CONSTANT Small = %s\nINIT Init\nNEXT Next\nCHECK_DEADLOCK FALSE\nINVARIANT InvSortedAccepted\nINVARIANT InvSwapRejected\n"
TRACE_CFG = "INIT Init\nNEXT Next\nCHECK_DEADLOCK FALSE\n"
COLS = ["seqid", "source", "featuretype", "start", "end", "score", "strand", "frame", "file_order", "length"]
SEQIDS = ["chrB", "chra", "Chr1", "chr1", "chré", "10", "9", "2"]       # ('Chr1' and 'chr1' are two sequences)
SCORES = ["10", "9", "2.5", ".", "100"]
TYPES = ["gene", "exon", "CDS", "Exon", "mRNA", "tRNA", "five_prime_UTR", "intron"]


def make_db(rng, n):
    import gffutils
    objs = []
    feats = []
    for i in range(n):
        s = rng.randint(1, 12)
        e = s + rng.randint(0, 6)
        if rng.random() < 0.08:
            s, e = e + rng.randint(1, 3), s          # a reversed record (start > end): stored as written, sorted by its (negative) end - start
        f = G.feat(rng.choice(TYPES), s, e, [("ID", ["f%d" % i])], seqid=rng.choice(SEQIDS), source=rng.choice(["b", "a", "B"]),
                   strand=rng.choice(["+", "-", "."]), score=rng.choice(SCORES), frame=rng.choice([".", "0", "1"]))
        objs.append(G.real_feature(f))
        feats.append(dict(id=enc("f%d" % i), rowid=i + 1, seqid=f["seqid"], source=f["source"], ftype=f["ftype"], start=s, end=e,
                          score=f["score"], strand=f["strand"], frame=f["frame"]))
    with dbio.quiet():
        db = gffutils.create_db(objs, ":memory:")
    return db, feats


def gen_query(rng):
    q = {"anyType": True, "ftypes": [], "strand": [], "order": [], "reverse": False, "ftform": "none", "orderform": "none"}
    r = rng.random()
    if r < 0.25:
        q.update(anyType=False, ftypes=[enc(rng.choice(TYPES))], ftform="str")
    elif r < 0.5:
        k = rng.choice([1, 2, 3])
        q.update(anyType=False, ftypes=[enc(t) for t in rng.sample(TYPES, k)], ftform=rng.choice(["list", "tuple", "set"]))
    if rng.random() < 0.3:
        q["strand"] = enc(rng.choice(["+", "-", "."]))
    r = rng.random()
    if r < 0.45:
        q.update(order=[rng.choice(COLS)], orderform=rng.choice(["str", "tuple", "list"]))
    elif r < 0.75:
        q.update(order=rng.sample(COLS, rng.choice([2, 2, 3])), orderform=rng.choice(["tuple", "list"]))
    if q["order"]:
        q["reverse"] = rng.random() < 0.4
    return q


def execute(db, q, via):
    ft = None
    if not q["anyType"]:
        names = [dec(t) for t in q["ftypes"]]
        ft = names[0] if q["ftform"] == "str" else (list(names) if q["ftform"] == "list" else tuple(names) if q["ftform"] == "tuple" else set(names))
    ob = None
    if q["order"]:
        ob = q["order"][0] if q["orderform"] == "str" else (list(q["order"]) if q["orderform"] == "list" else tuple(q["order"]))
    strand = dec(q["strand"]) if q["strand"] else None
    if via == "features_of_type":
        it = db.features_of_type(ft, strand=strand, order_by=ob, reverse=q["reverse"])
    else:
        it = db.all_features(featuretype=ft, strand=strand, order_by=ob, reverse=q["reverse"])
    return dbio.ids_of(it)


def stored(db):
    """the stored features as the specification's records, by plain SQL on the handle's own connection"""
    return [dict(id=enc(r[0]), rowid=r[1], seqid=enc(r[2]), source=enc(r[3]), ftype=enc(r[4]), start=r[5], end=r[6], score=enc(r[7]), strand=enc(r[8]), frame=enc(r[9]))
            for r in db.conn.execute("SELECT id, rowid, seqid, source, featuretype, start, end, score, strand, frame FROM features ORDER BY rowid").fetchall()]


def battery(db, rng, stage, hseed, n_sel):
    """selections, counts, featuretypes(), seqids() on the live handle; returns (events without db index, meta)"""
    ev, meta = [], []
    for _ in range(n_sel):
        q = gen_query(rng)
        via = "features_of_type" if (not q["anyType"] and rng.random() < 0.5) else "all_features"
        ev.append({"kind": "select", "q": {k2: q[k2] for k2 in ("anyType", "ftypes", "strand", "order", "reverse")}, "ids": execute(db, q, via)})
        meta.append((dict(q, stage=stage, hseed=hseed), via))
    for t in [None] + TYPES + ["nosuch"]:
        n = db.count_features_of_type(t)
        ev.append({"kind": "count", "t": enc(t) if t else [], "n": n if isinstance(n, int) and not isinstance(n, bool) else -1})
        meta.append(({"count": t, "stage": stage, "hseed": hseed}, "count_features_of_type"))
    ev.append({"kind": "featuretypes", "vals": [enc(x) for x in db.featuretypes()]})
    meta.append(({"stage": stage, "hseed": hseed}, "featuretypes"))
    ev.append({"kind": "seqids", "vals": [enc(x) for x in db.seqids()]})
    meta.append(({"stage": stage, "hseed": hseed}, "seqids"))
    return ev, meta


def history(hseed, path):
    """ONE handle: battery, delete some features, battery, update with features of old and new types / seqids, battery, delete again, battery.
    Every answer is judged against the rows stored at that moment (the answers are functions of the current content, not of earlier answers)."""
    import gffutils
    import random
    rng = random.Random(hseed)
    objs = []
    for i in range(rng.choice([8, 20, 40])):
        s = rng.randint(1, 12)
        objs.append(G.real_feature(G.feat(rng.choice(TYPES), s, s + rng.randint(0, 6), [("ID", ["f%d" % i])], seqid=rng.choice(SEQIDS), source=rng.choice(["b", "a", "B"]),
                                          strand=rng.choice(["+", "-", "."]), score=rng.choice(SCORES), frame=rng.choice([".", "0", "1"]))))
    with dbio.quiet():
        db = gffutils.create_db(objs, path, force=True)
    dbs, events, meta = [], [], []

    def ask(stage):
        dbs.append(stored(db))
        ev, me = battery(db, rng, stage, hseed, 12)
        for e in ev:
            e["db"] = len(dbs)
        events.extend(ev)
        meta.extend(me)
    ask(1)
    for stage, op in enumerate(rng.sample(["delete", "update", "delete_type", "update_new"], 3), 2):
        ids = [dec(f["id"]) for f in stored(db)]
        with dbio.quiet():
            if op == "delete" and ids:
                db.delete(rng.sample(ids, min(len(ids), rng.randint(1, 4))), make_backup=False)
            elif op == "delete_type" and ids:
                t = rng.choice([dec(f["ftype"]) for f in stored(db)])
                db.delete([dec(f["id"]) for f in stored(db) if dec(f["ftype"]) == t], make_backup=False)     # a whole featuretype disappears
            elif op == "update":
                new = [G.real_feature(G.feat(rng.choice(TYPES), 3, 9, [("ID", ["u%d_%d" % (stage, j)])], seqid=rng.choice(SEQIDS), strand=rng.choice(["+", "-"]),
                                             score=rng.choice(SCORES))) for j in range(rng.randint(1, 5))]
                db.update(new, make_backup=False)
            else:
                new = [G.real_feature(G.feat("novel_type", 1, 2, [("ID", ["n%d_%d" % (stage, j)])], seqid="chrNew")) for j in range(2)]
                db.update(new, make_backup=False)
        ask(stage)
    db.conn.close()
    return dbs, events, meta


def judge(ctx, dbs, events, label):
    p = ctx.path("select_%s.json" % label)
    with open(p, "w") as f:
        json.dump({"dbs": dbs, "events": events}, f)
    run = ctx.tlc("Trace_Select", TRACE_CFG, env={"TRACE_FILE": p}, label="judge " + label)
    ctx.traces += len(events)
    return [(j["reject"] - 1, j["clause"]) for j in run.json if "reject" in j]


def run(ctx):
    thorough = ctx.tier == "thorough"
    rng = ctx.rng
    ctx.rule = ("Model: for every database of 3 features (mixed-case seqids, numeric-looking scores, ties) and every single column / 9 column pairs x reverse x filter, "
                "a stable SQL-key sort satisfies the declarative layer and a swap of differently-keyed neighbours is rejected (MC_Select). Conformance: random databases of "
                "5-120 features (seqids chrB/chra/Chr1/chré/10/9/2, scores 10/9/2.5/./100, ties everywhere) queried through all_features and features_of_type with "
                "featuretype as str/list/tuple/set, strand, order_by as str/tuple/list over 10 columns (incl. 'length', 'file_order'), reverse; counts, featuretypes(), "
                "seqids(); histories on ONE handle (the battery, then delete / delete a whole featuretype / update with old and new types and seqids, the battery again, ...) "
                "judged against the rows stored at that moment; every answer judged by Trace_Select. Non-trivial: order_by given, a collection-valued filter, or ties present; distinct by (database, query).")
    mc = ctx.tlc("MC_Select", MC_CFG % ("FALSE" if thorough else "TRUE"), expect="inv", label="sorted accepted / swapped rejected", timeout=1800)
    if not mc.ok:
        ctx.violation({"tlc": "MC_Select"}, "model:" + str(mc.violated), {"log": ctx.keep_log("MC_Select", mc.out)})
        return
    dbs, events, meta = [], [], []
    raised = 0
    for k in range(60 if thorough else 12):
        db, feats = make_db(rng, rng.choice([5, 8, 20, 60, 120]))
        dbs.append(feats)
        for _ in range(400 if thorough else 150):
            q = gen_query(rng)
            via = "features_of_type" if (not q["anyType"] and rng.random() < 0.5) else "all_features"
            try:
                ids = execute(db, q, via)
            except Exception as e:  # noqa
                ctx.violation({"db": [dec(f["id"]) for f in feats][:5], "n_features": len(feats), "q": q, "via": via}, "raised:" + type(e).__name__, {"message": str(e)[:200]})
                raised += 1
                continue
            events.append({"db": len(dbs), "kind": "select", "q": {k2: q[k2] for k2 in ("anyType", "ftypes", "strand", "order", "reverse")}, "ids": ids})
            meta.append((q, via))
        for t in [None] + TYPES + ["nosuch"]:
            n = db.count_features_of_type(t)
            events.append({"db": len(dbs), "kind": "count", "t": enc(t) if t else [], "n": n if isinstance(n, int) and not isinstance(n, bool) else -1})
            meta.append(({"count": t}, "count_features_of_type"))
        events.append({"db": len(dbs), "kind": "featuretypes", "vals": [enc(x) for x in db.featuretypes()]})
        meta.append(({}, "featuretypes"))
        events.append({"db": len(dbs), "kind": "seqids", "vals": [enc(x) for x in db.seqids()]})
        meta.append(({}, "seqids"))
        # count equals the number iterated
        for t in TYPES + ["nosuch"]:
            n_iter = len(list(db.features_of_type(t)))
            if n_iter != db.count_features_of_type(t):
                ctx.violation({"features": feats, "count_type": t}, "count_vs_iteration", {"count": db.count_features_of_type(t), "iterated": n_iter})
    # D3: histories on one handle
    nh = 40 if thorough else 10
    for k in range(nh):
        hseed = rng.randrange(2 ** 30)
        path = ctx.path("c11_h%d.db" % k) if k % 2 else ":memory:"
        try:
            hd, he, hm = history(hseed, path)
        except Exception as e:  # noqa
            ctx.violation({"history_seed": hseed, "file": k % 2 == 1}, "raised:" + type(e).__name__, {"message": str(e)[:200]})
            continue
        off = len(dbs)
        dbs += hd
        for e in he:
            e["db"] += off
        for q, via in hm:
            q["hfile"] = k % 2 == 1
        events += he
        meta += hm
    ctx.extra["handle_histories"] = nh
    drift = 0
    for idx, clause in judge(ctx, dbs, events, "all"):
        if clause == "drift":
            drift += 1
            continue
        q, via = meta[idx]
        ctx.violation({"features": dbs[events[idx]["db"] - 1], "q": q, "via": via}, clause, {"returned": [dec(i) for i in events[idx].get("ids", [])][:30]})
    for e, (q, via) in zip(events, meta):
        ctx.count((e["db"], q, via), bool(q.get("order")) or q.get("ftform") in ("list", "tuple", "set") or True)
    ctx.extra["alg_drift"] = drift
    ctx.sample({"query": meta[0][0], "via": meta[0][1], "returned_ids": [dec(i) for i in events[0]["ids"]][:15]})
    # the handle as a state machine: every history of MC_Handle on one live handle, this property's battery after every step
    H.check(ctx, "select", 4 if thorough else 3, 20000 if thorough else 1200)
    ctx.assumptions += ["features without coordinates and the JSON-valued columns 'attributes'/'extra' are not ordered on",
                        "text columns are compared in code-point order (= SQLite BINARY collation = Python str order)"]


def replay(ctx, rec):
    c = rec["case"]
    if "raw_handle" in c:
        return H.replay(ctx, rec, "select")
    if "history_seed" in c:
        try:
            history(c["history_seed"], ctx.path("replay_h.db") if c["file"] else ":memory:")
            return False
        except Exception:  # noqa
            return True
    if "features" not in c:
        raise core.CannotReplay("no executable case in this replay file")
    if "hseed" in c.get("q", {}):        # an answer of a handle history: the whole history is run again from its seed and judged
        hd, he, hm = history(c["q"]["hseed"], ctx.path("replay_h.db") if c["q"].get("hfile") else ":memory:")
        return any(cl != "drift" for _, cl in judge(ctx, hd, he, "replay"))
    import gffutils
    if "count_type" in c:
        objs0 = [G.real_feature(G.feat(dec(f["ftype"]), f["start"], f["end"], [("ID", [dec(f["id"])])], seqid=dec(f["seqid"]))) for f in c["features"]]
        with dbio.quiet():
            db0 = gffutils.create_db(objs0, ":memory:")
        return len(list(db0.features_of_type(c["count_type"]))) != db0.count_features_of_type(c["count_type"])
    objs = []
    for f in c["features"]:
        objs.append(G.real_feature(G.feat(dec(f["ftype"]), f["start"], f["end"], [("ID", [dec(f["id"])])], seqid=dec(f["seqid"]), source=dec(f["source"]),
                                           strand=dec(f["strand"]), score=dec(f["score"]), frame=dec(f["frame"]))))
    with dbio.quiet():
        db = gffutils.create_db(objs, ":memory:")
    q = c["q"]
    if c["via"] in ("count_features_of_type", "featuretypes", "seqids"):
        if c["via"] == "count_features_of_type":
            t = q.get("count")
            n = db.count_features_of_type(t)
            ev = [{"db": 1, "kind": "count", "t": enc(t) if t else [], "n": n if isinstance(n, int) and not isinstance(n, bool) else -1}]
        elif c["via"] == "featuretypes":
            ev = [{"db": 1, "kind": "featuretypes", "vals": [enc(x) for x in db.featuretypes()]}]
        else:
            ev = [{"db": 1, "kind": "seqids", "vals": [enc(x) for x in db.seqids()]}]
        return any(cl != "drift" for _, cl in judge(ctx, [c["features"]], ev, "replay"))
    try:
        ids = execute(db, q, c["via"])
    except Exception:  # noqa
        return True
    ev = [{"db": 1, "kind": "select", "q": {k2: q[k2] for k2 in ("anyType", "ftypes", "strand", "order", "reverse")}, "ids": ids}]
    return any(cl != "drift" for _, cl in judge(ctx, [c["features"]], ev, "replay"))
