"""C18 - len, sequence, BED12.  Spec: Intervals.tla (LenOf, SeqOf, Bed12_Alg, Bed12_Decl); MC_Bed (TLC: alg satisfies decl); Gen_Intervals."""
import json
import os

from .. import core
from ..core import enc, dec
from .. import dbio
from . import gen_db as G
from . import iv_common as I

MC_CFG = "CONSTANT WordNA = {}\nCONSTANT Deviations = {}\nCONSTANT NumTable <- MCNum\nINIT Init\nNEXT Next\nCHECK_DEADLOCK FALSE\nINVARIANT InvBed\nINVARIANT InvSeq\n"


def thick_of(m, tid, ftype):
    """does transcript tid of gene model m have children of the given type (level 1)?"""
    for f in m["feats"]:
        if dec(f["ftype"]) == ftype and any(dec(k) == "Parent" and tid in [dec(v) for v in vs] for k, vs in f["attrs"]):
            return True
    return False


def bed_fields(d, arg, **kw):
    try:
        s = d.bed12(arg, **kw)
        return {"raise": False, "fields": [enc(x) for x in s.split("\t")]}
    except ValueError:
        return {"raise": True}


def bed_clause(got, want, thick_present):
    """what C18 fixes of a BED12 answer: ValueError iff the blocks do not span; twelve fields; chromStart, chromEnd, blockCount, blockSizes,
    blockStarts; thickStart / thickEnd when thick features are present.  The other fields (chrom, name, score, strand, itemRgb, thick bounds
    without thick features) follow the transcription of bed12(): a difference there is drift, not a verdict."""
    if got["raise"] != want["raise"]:
        return "bed12_valueerror"
    if got["raise"]:
        return None
    g, w = got["fields"], want["fields"]
    if len(g) != 12:
        return "bed12_fields"
    fixed = [1, 2, 9, 10, 11] + ([6, 7] if thick_present else [])
    if any(g[i] != w[i] for i in fixed):
        return "bed12_fields"
    return "drift" if g != w else None


def check_model(ctx, m, e, fa):
    from gffutils import convert
    from gffutils.feature import Feature
    case = {"model": m, "lines": I.model_lines(m)}
    try:
        d = I.build(m)
        # len
        for f, n in zip(d.all_features(), e["lens"]):
            if len(f) != n:
                ctx.violation(case, "len", {"id": f.id, "observed": len(f), "expected": n})
        # bed12: id form and Feature form
        for b in e["bed"]:
            tid = dec(b["id"])
            if not b["decl"]:
                ctx.violation(case, "model:bed12_decl", {"id": tid})
            for form, arg in (("id", tid), ("feature", d[tid])):
                try:
                    got = bed_fields(d, arg)
                except Exception as ex:  # noqa
                    ctx.violation(case, "bed12_%s_raised:%s" % (form, type(ex).__name__), {"id": tid, "message": str(ex)[:120]})
                    continue
                which = bed_clause(got, b["r"], thick_of(m, tid, "CDS"))
                if which == "drift":
                    ctx.extra["alg_drift"] = ctx.extra.get("alg_drift", 0) + 1
                elif which:
                    ctx.violation(case, "%s_%s" % (which, form), {"id": tid, "observed": [dec(x) for x in got.get("fields", [])],
                                                                      "expected": [dec(x) for x in b["r"].get("fields", [])]})
            # the SAME handle is asked again for the same transcript with other arguments, and then with the first ones again:
            # every answer is a function of (database, arguments) only
            variants = [("blocks_CDS", b["r2"], b["decl2"], dict(block_featuretype=["CDS"], thick_featuretype=["exon"], name_field="Name", color="255, 0, 0")),
                        ("default_again", b["r"], b["decl"], {}),
                        ("thin", b["r3"], b["decl3"], dict(block_featuretype="exon", thick_featuretype=None, thin_featuretype=["exon"])),
                        ("blocks_CDS_feature", b["r2"], b["decl2"], dict(block_featuretype="CDS", thick_featuretype="exon", name_field="Name", color=" 255,0,0 "))]
            for vname, want, decl, kw in variants:
                if not decl:
                    ctx.violation(case, "model:bed12_decl_" + vname, {"id": tid})
                try:
                    got = bed_fields(d, d[tid] if vname.endswith("feature") else tid, **kw)
                except Exception as ex:  # noqa
                    ctx.violation(case, "bed12_%s_raised:%s" % (vname, type(ex).__name__), {"id": tid, "message": str(ex)[:120]})
                    continue
                which = bed_clause(got, want, False if vname == "thin" else thick_of(m, tid, "exon" if vname != "default_again" else "CDS"))     # (thin_featuretype is not part of the statement)
                if which == "drift":
                    ctx.extra["alg_drift"] = ctx.extra.get("alg_drift", 0) + 1
                elif which:
                    ctx.violation(case, "%s_%s" % (which, vname), {"id": tid, "arguments": kw, "observed": [dec(x) for x in got.get("fields", [])],
                                                                     "expected": [dec(x) for x in want.get("fields", [])]})
            # the alternative converter agrees on the block geometry whenever the blocks span the transcript
            if not b["r"]["raise"]:
                t = d[tid]
                kids = list(d.children(t, featuretype="exon", order_by="start"))
                if kids:
                    alt = convert.to_bed12(t, d).rstrip("\n").split("\t")
                    f12 = [dec(x) for x in b["r"]["fields"]]
                    if [alt[1], alt[2], alt[9], alt[10], alt[11]] != [f12[1], f12[2], f12[9], f12[10], f12[11]]:
                        ctx.violation(case, "to_bed12_geometry", {"id": tid, "observed": alt, "expected": f12})
        # sequence through pyfaidx
        with open(fa, "w") as fh:
            fh.write(">chrR\n" + dec(m["ref"]) + "\n")
        for q, want in zip(m["queries"], e["seqs"]):
            f = Feature(seqid="chrR", start=q["s"], end=q["e"], strand=dec(q["strand"]))
            got = f.sequence(fa, use_strand=q["use"])
            if got != dec(want):
                ctx.violation(case, "sequence", {"query": q, "observed": got, "expected": dec(want)})
            if len(got) != len(f):
                ctx.violation(case, "sequence_length", {"query": q})
    except Exception as ex:  # noqa
        ctx.violation(case, "raised:" + type(ex).__name__, {"message": str(ex)[:200]})
    nt = any(len(b["r"].get("fields", [])) == 12 and dec(b["r"]["fields"][9]) != "1" for b in e["bed"]) or dec(m["feats"][0]["strand"]) == "-" or bool(e["bed"])
    ctx.count(I.model_lines(m), nt)


def run(ctx):
    thorough = ctx.tier == "thorough"
    ctx.rule = ("Model (MC_Bed): every transcript over positions 1..7 with 0-2 exons and 0-1 CDS in every placement, either strand: Bed12_Alg satisfies Bed12_Decl (twelve fields, "
                "chromStart = start-1, one block per block feature, sizes = lengths, starts relative, last block ends at chromEnd, ValueError iff the blocks do not span); every "
                "(start, end, strand, use_strand) on a 12-base reference: |SeqOf| = len. Conformance (Gen_Intervals): random gene models - bed12(id) and bed12(Feature) for "
                "every mRNA incl. ones without exon children and ones whose blocks do not span, convert.to_bed12, len() of every feature, Feature.sequence() through a generated "
                "FASTA file and pyfaidx for 6 (start, end, strand, use_strand) queries per model. Non-trivial: >= 2 blocks, thick features, minus strand, or the id form.")
    mc = ctx.tlc("MC_Bed", MC_CFG, expect="inv", label="bed12 alg satisfies decl; sequence length")
    if not mc.ok:
        ctx.violation({"tlc": "MC_Bed"}, "model:" + str(mc.violated), {"log": ctx.keep_log("MC_Bed", mc.out)})
        return
    from gffutils import convert
    from gffutils.feature import Feature
    models = [I.random_model(ctx.rng) for _ in range(3000 if thorough else 1000)]
    exp = I.oracle(ctx, models)
    fa = ctx.path("ref.fa")
    for k, (m, e) in enumerate(zip(models, exp)):
        check_model(ctx, m, e, fa)
    ctx.traces += len(models)
    ctx.sample({"model": I.model_lines(models[0]), "expected_bed12": [[dec(x) for x in b["r"].get("fields", [])] for b in exp[0]["bed"]],
                "reference": dec(models[0]["ref"]), "queries": models[0]["queries"][:2], "expected_sequences": [dec(s) for s in exp[0]["seqs"][:2]]})
    ctx.assumptions += ["thick features are given through thick_featuretype (the default); when there is no thick child the thick fields are not constrained by the statement and are compared with the algorithmic layer",
                        "reference sequences use the IUPAC nucleotide codes in both cases (ACGTN RYKMBDHVWS)"]


def replay(ctx, rec):
    c = rec["case"]
    if "model" not in c:
        raise core.CannotReplay("no executable case in this replay file")
    m = c["model"]
    e = I.oracle(ctx, [m])[0]
    # (in the run the reference file is rewritten for every model: do the same here, so that anything remembered per file NAME is stale)
    from gffutils.feature import Feature
    fa = ctx.path("ref.fa")
    with open(fa, "w") as fh:
        fh.write(">chrR an earlier version of the reference, with a longer header line\n" + "T" * 7 + "\n" + "T" * 7 + "\n")
    try:
        Feature(seqid="chrR", start=1, end=4, strand="+").sequence(fa)
    except Exception:  # noqa
        pass
    n0 = len(ctx.violations)
    check_model(ctx, m, e, fa)
    return len(ctx.violations) > n0
