"""C03 - GTF import.  Spec: GffDB (GtfLine, GtfLinks, InferGTF, DerivedInsert); MC_DB03."""
import json
import os
import warnings

from .. import core
from ..core import enc, dec
from .. import dbio
from . import gen_db as G

INVS = ["InvTranscripts", "InvGenes", "InvLevels", "InvNoSelf", "InvNothingElse"]
MC_CFG = "CONSTANT MaxLines = %d\nCONSTANT WordNA = {}\nCONSTANT Deviations = {%s}\nINIT Init\nNEXT Next\nCHECK_DEADLOCK FALSE\n"


def observe(texts, v):
    import gffutils
    kw = {}
    if v["noT"]:
        kw["disable_infer_transcripts"] = True
    if v["noG"]:
        kw["disable_infer_genes"] = True
    if v["custom"]:
        kw.update(gtf_transcript_key="tx", gtf_gene_key="gn", gtf_subfeature="CDS", id_spec={"gene": "gn", "transcript": "tx"})
    text = "\n".join(texts) + "\n"
    try:
        with dbio.quiet(), warnings.catch_warnings():
            warnings.simplefilter("ignore")
            db = gffutils.create_db(text, ":memory:", from_string=True, **kw)
    except Exception as e:  # noqa
        return {"raised": type(e).__name__ + ": " + str(e)[:100]}
    feats = []
    for f in db.all_features():
        feats.append({"id": enc(f.id), "ftype": enc(f.featuretype), "seqid": enc(f.seqid), "strand": enc(f.strand),
                      "start": -1 if f.start is None else f.start, "end": -1 if f.end is None else f.end})
    rels = [list(r) for r in dbio.rel_rows(db.conn)]
    # retrievable by id, and the level queries agree with the relation rows
    look = []
    for f in feats:
        try:
            g = db[dec(f["id"])]
            if g.start != f["start"] or g.end != f["end"]:
                look.append("lookup_differs:" + dec(f["id"]))
        except Exception as e:  # noqa
            look.append("lookup_raised:" + dec(f["id"]))
        for lvl in (1, 2):
            kids = sorted(dbio.ids_of(db.children(dec(f["id"]), level=lvl)))
            want = sorted(r[1] for r in rels if r[0] == f["id"] and r[2] == lvl and any(x["id"] == r[1] for x in feats))
            if kids != want:
                look.append("children_level%d:%s" % (lvl, dec(f["id"])))
    return {"raised": None, "feats": feats, "rels": rels, "look": look, "dialect_fmt": db.dialect["fmt"]}


def key(x):
    return json.dumps(x, sort_keys=True)


def run_case(c):
    o = observe([dec(t) for t in c["texts"]], c["v"])
    if o["raised"]:
        return "raised" if c["st"] == "ok" else None, o
    if c["st"] != "ok":
        return "not_raised", o
    if o["dialect_fmt"] != "gtf":
        return "harness:not_routed_to_gtf", o
    if sorted(map(key, o["feats"])) != sorted(map(key, c["view"]["feats"])):
        # name the first differing kind
        exp = {key(f["id"]): f for f in c["view"]["feats"]}
        got = {key(f["id"]): f for f in o["feats"]}
        if set(exp) != set(got):
            return "feature_keys", o
        for k in exp:
            if exp[k] != got[k]:
                return "extent_or_type:" + dec(exp[k]["id"]), o
        return "duplicate_key", o
    if sorted(map(key, o["rels"])) != sorted(map(key, [list(r) for r in c["view"]["rels"]])):
        self_rel = [r for r in o["rels"] if r[0] == r[1]]
        return ("self_relation" if self_rel else "relations"), o
    if o["look"]:
        return o["look"][0], o
    return None, o


NAMED = ("g1", "g2", "t1", "t2", "t3")


def scaled_gtf(cases, picks):
    """a GTF of thousands of lines: block k is case picks[k] with its gene and transcript ids suffixed _k.  Gene / transcript inference is per id and the
    blocks' id spaces are disjoint, so the expectation is the union of the blocks' expectations (only the auto-numbered keys of exon/CDS lines depend on
    the other blocks: those features are compared by (type, seqid, strand, start, end) and as relation targets by that signature)."""
    import re
    lines, named, others, rels = [], {}, [], []
    for k, ci in enumerate(picks):
        c = cases[ci]
        suf = "_%d" % k
        for t in c["texts"]:
            lines.append(re.sub(r'"(g\d|t\d)"', lambda m: '"%s%s"' % (m.group(1), suf), dec(t)))
        sig = {}
        for f in c["view"]["feats"]:
            i = dec(f["id"])
            rec = (dec(f["ftype"]), dec(f["seqid"]), dec(f["strand"]), f["start"], f["end"])
            if i in NAMED:
                named[i + suf] = rec
                sig[i] = i + suf
            else:
                others.append(rec)
                sig[i] = rec
        for r in c["view"]["rels"]:
            pa, ch = dec(r[0]), dec(r[1])
            if pa in sig and ch in sig:
                rels.append((sig[pa], sig[ch], r[2]))
    return lines, named, sorted(others), sorted(map(repr, rels))


def run_scaled(lines, named, others, rels, path):
    import gffutils
    import re
    try:
        with dbio.quiet(), warnings.catch_warnings():
            warnings.simplefilter("ignore")
            db = gffutils.create_db("\n".join(lines) + "\n", path, from_string=True, force=True)
        db.conn.close()
        db = gffutils.FeatureDB(path)
        gn, go, sig = {}, [], {}
        for f in db.all_features():
            rec = (f.featuretype, f.seqid, f.strand, f.start, f.end)
            if re.match(r"^[gt]\d_\d+$", f.id):
                if f.id in gn:
                    return "scaled:duplicate_key", {"id": f.id}
                gn[f.id] = rec
                sig[f.id] = f.id
            else:
                go.append(rec)
                sig[f.id] = rec
        if set(gn) != set(named):
            return "scaled:feature_keys", {"missing": sorted(set(named) - set(gn))[:5], "unexpected": sorted(set(gn) - set(named))[:5], "n_lines": len(lines)}
        for i in named:
            if gn[i] != named[i]:
                return "scaled:extent_or_type:" + i, {"observed": gn[i], "expected": named[i]}
        if sorted(go) != others:
            return "scaled:line_features", {"stored": len(go), "expected": len(others)}
        rows = db.conn.execute("SELECT parent, child, level FROM relations").fetchall()
        self_rel = [r for r in rows if r[0] == r[1]]
        if self_rel:
            return "scaled:self_relation", {"rows": [list(r) for r in self_rel[:5]]}
        got = sorted(repr((sig[p], sig[c], l)) for p, c, l in rows if p in sig and c in sig)
        if got != rels:
            return "scaled:relations", {"rows": len(got), "expected": len(rels)}
        db.conn.close()
        return None, None
    except Exception as e:  # noqa
        return "scaled:raised:" + type(e).__name__, {"message": str(e)[:200]}
    finally:
        if os.path.exists(path):
            os.unlink(path)


def nontrivial(c):
    m = c["sel"]
    explicit = any(x in (7, 8, 9) for x in m)
    two_exons = (1 in m and 2 in m)
    flag = c["v"]["noT"] or c["v"]["noG"] or c["v"]["custom"]
    unordered = m != sorted(m)
    return explicit or flag or (two_exons and unordered)


def run(ctx):
    thorough = ctx.tier == "thorough"
    ml = 5 if thorough else 4
    ctx.rule = ("D1: every ordered selection of <= %d lines from a 9-line GTF menu (two genes, three transcripts, exons/CDS over coordinates 1..6, explicit transcript and "
                "gene lines, one explicit transcript whose extent differs from the derivable one, transcripts left without exons) x the four disable_infer_* combinations "
                "+ custom keys/subfeature (MC_DB03: InvTranscripts, InvGenes, InvLevels, InvNoSelf, InvNothingElse); every file imported by the code and compared on "
                "(id, type, seqid, strand, start, end) of every stored feature, the relation rows, db[id] and children(level=1|2). Non-trivial: an explicit gene/transcript "
                "line, a flag or custom keys, or two exons of one transcript with lines out of hierarchical order; distinct by (lines in order, variant).") % ml
    mc = ctx.tlc("MC_DB03", MC_CFG % (ml, "") + "".join("INVARIANT %s\n" % i for i in INVS), expect="inv", label="ordered line selections x variants", timeout=2400)
    if not mc.ok:
        ctx.violation({"tlc": "MC_DB03"}, "model:" + str(mc.violated), {"log": ctx.keep_log("MC_DB03", mc.out)})
        return
    dv = ctx.tlc("MC_DB03", MC_CFG % (3, '"F1_GtfSelfRelations"') + "INVARIANT InvNoSelf\n", expect="inv", label="deviation F1 must break InvNoSelf")
    ctx.extra["deviation_F1_breaks"] = dv.violated
    if dv.violated != "InvNoSelf":
        ctx.violation({"deviation": "F1_GtfSelfRelations"}, "model:deviation_not_a_defect", {"violated": dv.violated})
    seen = {}
    for j in mc.json:
        seen[(tuple(j["sel"]), key(j["v"]))] = j
    cases = [seen[k] for k in sorted(seen)]
    ctx.exhaustive = True
    limit = 60000 if thorough else 7000
    if len(cases) > limit:
        cases = ctx.rng.sample(cases, limit)
        ctx.exhaustive = False
    res = core.pmap(run_case, cases)
    for c, (bad, o) in zip(cases, res):
        if bad:
            ctx.violation({"lines": [dec(t) for t in c["texts"]], "variant": c["v"]}, bad,
                          {"observed_relations": [[dec(r[0]), dec(r[1]), r[2]] for r in o.get("rels", [])][:12], "raised": o.get("raised")})
        ctx.count((c["sel"], c["v"]), nontrivial(c))
    ctx.traces += len(cases)
    ctx.sample({"file": [dec(t) for t in cases[-1]["texts"]], "variant": cases[-1]["v"],
                "expected_features": [[dec(f["id"]), dec(f["ftype"]), f["start"], f["end"]] for f in cases[-1]["view"]["feats"]]})
    # the lemma the scaled file rests on: a file followed by its renamed copy imports to the union of both (MC_DB03C)
    lem = ctx.tlc("MC_DB03C", MC_CFG % (4 if thorough else 3, "") + "INVARIANT InvBlockComposeGtf\n", expect="inv", label="block composition of the GTF importer", timeout=2400)
    ctx.extra["block_compose_gtf"] = lem.violated or "holds"
    if not lem.ok:
        ctx.violation({"tlc": "MC_DB03C"}, "model:" + str(lem.violated), {"log": ctx.keep_log("MC_DB03C", lem.out)})
    # D4: scale - more than a thousand lines without any explicit gene/transcript line, then blocks that have them
    dflt = [k for k, c in enumerate(cases) if not (c["v"]["noT"] or c["v"]["noG"] or c["v"]["custom"]) and c["st"] == "ok"]
    plain = [k for k in dflt if not any(x in (7, 8, 9) for x in cases[k]["sel"])]
    expl = [k for k in dflt if any(x in (7, 8, 9) for x in cases[k]["sel"])]
    for rep in range(3 if thorough else 1):
        picks = [ctx.rng.choice(plain) for _ in range(600)] + [ctx.rng.choice(expl) for _ in range(300)] + [ctx.rng.choice(dflt) for _ in range(1500 if thorough else 100)]
        while sum(len(cases[k]["texts"]) for k in picks[:600]) < 1100:
            picks.insert(0, ctx.rng.choice(plain))
        lines, named, others, rels = scaled_gtf(cases, picks)
        bad, detail = run_scaled(lines, named, others, rels, ctx.path("c03_scaled_%d.db" % rep))
        if bad:
            ctx.violation({"scaled_picks": [[cases[k]["sel"], cases[k]["v"]] for k in picks], "n_lines": len(lines), "first_lines": lines[:4]}, bad, detail)
        ctx.count(("scaled", len(lines), rep), True)
        ctx.traces += 1
        ctx.extra["scaled_gtf_lines"] = len(lines)
    # D3: the repository's GTF files go through the same import; only the clauses that hold for every GTF are judged
    data = os.path.join(core.REPO, "gffutils", "test", "data")
    import gffutils
    for fn in ("FBgn0031208.gtf", "ensembl_gtf.txt", "issue174.gtf", "sharr.gtf", "keep-order-test.gtf"):
        p = os.path.join(data, fn)
        if not os.path.exists(p):
            continue
        found = data_file_clauses(p, fn)
        if found is None:
            ctx.assumptions.append("data file %s could not be imported for the D3 pass" % fn)
            continue
        for case, clause, detail in found:
            ctx.violation(case, clause, detail)
        ctx.count(("d3", fn), True)
        ctx.traces += 1
    ctx.assumptions += ["every GTF line of the model carries both the gene and the transcript key (as the GTF specification requires)",
                        "an explicit transcript line is allowed to be a level-2 child of its gene in addition to level 1 (the statement only forbids self relations)"]


def data_file_clauses(p, fn):
    """the clauses of C03 that hold for EVERY GTF, on one of the repository's data files; None if the file cannot be imported at all"""
    import gffutils
    try:
        with dbio.quiet(), warnings.catch_warnings():
            warnings.simplefilter("ignore")
            db = gffutils.create_db(p, ":memory:", merge_strategy="create_unique", disable_infer_genes=False, disable_infer_transcripts=False)
    except Exception:  # noqa
        return None
    out = []
    rows = dbio.rel_rows(db.conn)
    selfrel = [r for r in rows if r[0] == r[1]]
    if selfrel:
        out.append(({"data_file": fn}, "self_relation", {"rows": [[dec(r[0]), dec(r[1]), r[2]] for r in selfrel[:5]]}))
    # derived transcripts span exactly their exons
    for t in db.features_of_type("transcript"):
        if t.source != "gffutils_derived":
            continue
        ex = list(db.children(t, level=1, featuretype="exon"))
        if ex and (t.start != min(e.start for e in ex) or t.end != max(e.end for e in ex)):
            out.append(({"data_file": fn, "transcript": t.id}, "extent_or_type:" + t.id, None))
    return out


def replay(ctx, rec):
    c = rec["case"]
    if "data_file" in c:
        found = data_file_clauses(os.path.join(core.REPO, "gffutils", "test", "data", c["data_file"]), c["data_file"])
        return bool(found)
    if "scaled_picks" in c:
        mc = ctx.tlc("MC_DB03", MC_CFG % (5 if rec.get("tier") == "thorough" else 4, ""), label="recompute block expectations")
        seen = {}
        for j in mc.json:
            seen[(tuple(j["sel"]), key(j["v"]))] = j
        blocks = [seen[(tuple(sel), key(v))] for sel, v in c["scaled_picks"]]
        lines, named, others, rels = scaled_gtf(blocks, list(range(len(blocks))))
        return run_scaled(lines, named, others, rels, ctx.path("c03_scaled_replay.db"))[0] is not None
    if "lines" not in c:
        raise core.CannotReplay("no executable case in this replay file")
    # the expectation is recomputed by model checking the bounded instance and looking the case up
    mc = ctx.tlc("MC_DB03", MC_CFG % (max(3, len(c["lines"])), ""), label="recompute expectation")
    for j in mc.json:
        if [dec(t) for t in j["texts"]] == c["lines"] and j["v"] == c["variant"]:
            return run_case(j)[0] is not None
    raise core.CannotReplay("the case could not be reconstructed from the model")
