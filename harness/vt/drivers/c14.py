"""C14 - directives, comments, blanks, FASTA.  Spec: Source.tla (Scan, Directives_Decl, DirsSeenByPeek, DbDirectives_Alg); MC_Source."""
import os
import warnings

from .. import core
from ..core import enc, dec
from .. import dbio
from . import src_common as S


def run_case(args):
    c, scratch, k = args
    import gffutils
    fails = []
    text = S.render(c["kinds"])
    path = os.path.join(scratch, "c14_%d_%d.gff" % (os.getpid(), k))
    dbfn = path + ".db"
    want_dirs = [dec(d) for d in c["dirs"]]
    want_feats = c["feats"]
    try:
        with open(path, "w") as f:
            f.write(text)
        import gzip
        with gzip.open(path + ".gz", "wt") as f:
            f.write(text)
        # the same lines with CRLF line ends (a file written on another platform), plain and gzipped
        with open(path + ".crlf", "wb") as f:
            f.write(text.replace("\n", "\r\n").encode())
        with gzip.open(path + ".crlf.gz", "wb") as f:
            f.write(text.replace("\n", "\r\n").encode())
        for form in ("path", "string", "gz", "path_crlf", "gz_crlf"):
            with S.quiet():
                it = (gffutils.DataIterator(path, checklines=c["cl"]) if form == "path" else gffutils.DataIterator(path + ".gz", checklines=c["cl"]) if form == "gz"
                      else gffutils.DataIterator(path + ".crlf", checklines=c["cl"]) if form == "path_crlf"
                      else gffutils.DataIterator(path + ".crlf.gz", checklines=c["cl"]) if form == "gz_crlf"
                      else gffutils.DataIterator(text, checklines=c["cl"], from_string=True))
                got = [S.fid(f) for f in it]
            if got != want_feats:
                fails.append(("iterated_features_" + form, got))
            if list(it.directives) != want_dirs:
                fails.append(("iterator_directives_" + form, list(it.directives)))
        if want_feats:
            for form in ("path", "string", "path_dialect_given", "path_options"):
                with S.quiet(), warnings.catch_warnings():
                    warnings.simplefilter("ignore")
                    if form == "path":
                        db = gffutils.create_db(path, dbfn, checklines=c["cl"], force=True)
                    elif form == "path_dialect_given":      # the caller states the dialect: directives are kept all the same
                        from gffutils import constants
                        db = gffutils.create_db(path, dbfn, checklines=c["cl"], force=True, dialect=dict(constants.dialect))
                    elif form == "path_options":            # other importer options in play
                        db = gffutils.create_db(path, dbfn, checklines=c["cl"], force=True, keep_order=True, merge_strategy="create_unique",
                                                sort_attribute_values=True, id_spec=["ID", "Name"], transform=lambda f: f)
                    else:
                        db = gffutils.create_db(text, dbfn, checklines=c["cl"], force=True, from_string=True)
                got = [S.fid(f) for f in db.all_features()]
                if got != want_feats:
                    fails.append(("stored_features_" + form, got))
                if list(db.directives) != want_dirs:
                    fails.append(("db_directives_" + form, list(db.directives)))
                db.conn.close()
                db2 = gffutils.FeatureDB(dbfn)
                if list(db2.directives) != want_dirs:
                    fails.append(("reopened_directives_" + form, list(db2.directives)))
                db2.conn.close()
    except Exception as e:  # noqa
        fails.append(("raised:" + type(e).__name__, str(e)[:200]))
    finally:
        for p in (path, dbfn, path + ".gz", path + ".crlf", path + ".crlf.gz"):
            if os.path.exists(p):
                os.unlink(p)
    return fails


def nontrivial(c):
    ks = c["kinds"]
    beyond = len(c["peekdirs"]) < len(c["dirs"])
    after_cb = any(ks[i] in ("D1", "D2", "D3", "D0") and i > 0 and ks[i - 1] in ("C", "B") for i in range(len(ks)))
    return beyond or after_cb or "FASTA" in ks or "H" in ks


def run(ctx):
    thorough = ctx.tier == "thorough"
    mi = 5 if thorough else 4
    ctx.rule = ("D1: every sequence of <= %d lines over {feature, ##d1, ##gff-v 3, ###note, #comment, blank, ##FASTA, >header, sequence text} x checklines 0..%d (MC_Source: "
                "InvNoLoss, InvDirectives, InvNothingAfterFasta, InvF9), written to a file and read as path and as from_string text: DataIterator.directives after "
                "iteration, iterated features, create_db(...).directives, FeatureDB(path).directives, stored features; D2: files with 0-30 features before a directive. "
                "Non-trivial: a directive beyond the inspected window, a directive after a comment/blank, or a FASTA section; distinct by (lines, checklines).") % (mi, mi + 1)
    cases = S.get_cases(ctx, mi, "item sequences x checklines")
    if cases is None:
        return
    ctx.exhaustive = True
    limit = 40000 if thorough else 5000
    if len(cases) > limit:
        cases = ctx.rng.sample(cases, limit)
        ctx.exhaustive = False
    res = core.pmap(run_case, [(c, ctx.scratch, k) for k, c in enumerate(cases)])
    for c, fails in zip(cases, res):
        for clause, got in fails[:1]:
            ctx.violation({"kinds": c["kinds"], "cl": c["cl"], "file": S.render(c["kinds"]).splitlines()}, clause,
                          {"observed": got, "expected_directives": [dec(d) for d in c["dirs"]], "expected_features": c["feats"]})
        ctx.count((c["kinds"], c["cl"]), nontrivial(c))
    ctx.traces += len(cases)
    ctx.sample({"file": S.render(cases[-1]["kinds"]).splitlines(), "checklines": cases[-1]["cl"], "expected_directives": [dec(d) for d in cases[-1]["dirs"]]})
    # D2: long files, directives far beyond the window (expectation: every directive before the cut, by the same rule)
    extra = []
    for _ in range(300 if thorough else 40):
        n = ctx.rng.randint(0, 30)
        kinds = ["F"] * n
        for _ in range(ctx.rng.randint(1, 4)):
            kinds.insert(ctx.rng.randint(0, len(kinds)), ctx.rng.choice(["D1", "D2", "D3", "C", "B"]))
        if ctx.rng.random() < 0.3:
            kinds += ["FASTA", "H", "J", "D1"]
        cut = min([i for i, k in enumerate(kinds) if k in ("FASTA", "H")] + [len(kinds)])
        dirs = [enc({"D1": "d1", "D2": "gff-version 3", "D3": "#note", "D0": ""}[k]) for k in kinds[:cut] if k in ("D1", "D2", "D3", "D0")]
        feats = [i + 1 for i, k in enumerate(kinds[:cut]) if k == "F"]
        extra.append({"kinds": kinds, "cl": ctx.rng.choice([0, 1, 10, 11, 50]), "dirs": dirs, "feats": feats, "peekdirs": []})
    # scale: thousands of directives (and of features) in one file
    for n in ([900, 2100] if thorough else [700]):
        kinds = ["D1", "F", "D2", "D3", "C"] * n
        extra.append({"kinds": kinds, "cl": 10, "dirs": [enc({"D1": "d1", "D2": "gff-version 3", "D3": "#note", "D0": ""}[k]) for k in kinds if k in ("D1", "D2", "D3", "D0")],
                      "feats": [i + 1 for i, k in enumerate(kinds) if k == "F"], "peekdirs": []})
    res = core.pmap(run_case, [(c, ctx.scratch, 100000 + k) for k, c in enumerate(extra)])
    for c, fails in zip(extra, res):
        for clause, got in fails[:1]:
            ctx.violation({"kinds": c["kinds"], "cl": c["cl"], "file": S.render(c["kinds"]).splitlines()}, "long:" + clause, {"observed": got})
        ctx.count((c["kinds"], c["cl"]), True)
    ctx.traces += len(extra)
    ctx.assumptions += ["a blank line is an empty line (white-space-only lines are outside the domain)",
                        "D2 expectations (all '##' lines before the first '##FASTA' or '>' line) are computed by the harness with the same one-line rule as Directives_Decl"]


def replay(ctx, rec):
    c = rec["case"]
    if "kinds" not in c:
        raise core.CannotReplay("no executable case in this replay file")
    kinds = c["kinds"]
    cut = min([i for i, k in enumerate(kinds) if k in ("FASTA", "H")] + [len(kinds)])
    case = {"kinds": kinds, "cl": c["cl"], "dirs": [enc({"D1": "d1", "D2": "gff-version 3", "D3": "#note", "D0": ""}[k]) for k in kinds[:cut] if k in ("D1", "D2", "D3", "D0")],
            "feats": [i + 1 for i, k in enumerate(kinds[:cut]) if k == "F"]}
    return bool(run_case((case, ctx.scratch, 0)))
