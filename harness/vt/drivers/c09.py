"""C09 - dialect inference.  Spec: Dialect.tla (Choose_Alg / Choose_Decl, Window, Importer) on AttrSyntax;
MC_Dialect (TLC), Gen_Attr for consistent files."""
import contextlib
import copy
import io
import json
import os

from .. import core
from ..core import enc, dec
from .. import attrs as A

MC_CFG = "CONSTANT MaxLen = %d\nCONSTANT WordNA = {}\nINIT Init\nNEXT Next\nCHECK_DEADLOCK FALSE\nINVARIANT InvDecl\nINVARIANT InvConsistent\n"
GEN_CFG = "CONSTANT WordNA <- WordNAFromFile\nINIT Init\nNEXT Next\nCHECK_DEADLOCK FALSE\n"
PREFIX = "chr1\tsrc\texon\t%d\t%d\t.\t+\t.\t"
MARKER = "chr1\tsrc\texon\t900\t950\t.\t+\t.\t"


def marker_line(exp):
    """a GTF exon line beyond the window, written with the field separator the file is expected to get"""
    return MARKER + 'gene_id "GMARK"' + dec(exp["fsep"]) + 'transcript_id "TMARK"' + (";" if exp["trail"] else "")


def write_file(path, texts, marker=None):
    with open(path, "w", encoding="utf-8") as f:
        for i, t in enumerate(texts):
            f.write((PREFIX % (10 * i + 1, 10 * i + 5)) + t + "\n")
        if marker:
            f.write(marker + "\n")


def quiet():
    return contextlib.redirect_stderr(io.StringIO())


def stated(d):
    """the part of a projected dialect that C09 speaks of: format, field and key/value separators, quoting, trailing semicolon, repeated keys, key order
    (the 'leading semicolon' and 'multival separator' entries are carried along by the code but not part of the statement)"""
    return {k: v for k, v in d.items() if k not in ("lead", "mvsep")} if isinstance(d, dict) else d


def obs_iterator(path, cl):
    import gffutils
    with quiet():
        it = gffutils.DataIterator(path, checklines=cl)
    return A.proj_dialect(it.dialect)


def obs_db(path, dbfn, cl):
    import gffutils
    import warnings
    with quiet(), warnings.catch_warnings():
        warnings.simplefilter("ignore")
        db = gffutils.create_db(path, dbfn, checklines=cl, force=True, merge_strategy="create_unique",
                                id_spec=lambda f: "autoincrement:x")   # ids are not the subject here (C04)
        d1 = A.proj_dialect(db.dialect)
        ids = set(f.featuretype for f in db.all_features() if f.source == "gffutils_derived")
        db.conn.close()
        db2 = gffutils.FeatureDB(dbfn)
        d2 = A.proj_dialect(db2.dialect)
        # the database keeps reporting the dialect of the input it was created from: after an update with hand-made Feature objects
        # (which carry the library's default dialect and other attribute keys) and another close / reopen
        from gffutils.feature import Feature
        db2.update([Feature(seqid="zz", source="s", featuretype="region", start=1, end=2, strand="+", attributes={"later_key": ["v"], "other": ["w"]})],
                   make_backup=False, merge_strategy="create_unique", id_spec=lambda f: "autoincrement:y")
        db2.conn.close()
        db3 = gffutils.FeatureDB(dbfn)
        d3 = A.proj_dialect(db3.dialect)
        db3.conn.close()
    return d1, d2 if stated(d3) == stated(d2) else {"after_update_and_reopen": d3}, ids


def run_case(args):
    (k, c, scratch, with_db) = args
    texts = [dec(t) for t in c["texts"]]
    path = os.path.join(scratch, "w%d_%d.gff" % (os.getpid(), k))
    out = {"k": k, "fails": []}
    try:
        write_file(path, texts)
        if not texts:
            # an input without features: the default dialect is reported by the iterator
            d = obs_iterator(path, c["cl"])
            # (no feature at all: the statement speaks of input "written in one dialect"; the defaults are reported - which key ORDER a feature-less
            #  input is given is nobody's business)
            if dict(stated(d), order=[]) != dict(stated(c["exp"]), order=[]):
                out["fails"].append(("iterator_dialect", d))
            return out
        d = obs_iterator(path, c["cl"])
        if stated(d) != stated(c["exp"]):
            out["fails"].append(("iterator_dialect", d))
        # the same lines as Feature objects in a list / a tuple / a one-shot generator: the inspected window is the same checklines+1 items
        if k % 4 == 0:
            import gffutils
            from gffutils.feature import feature_from_line
            for form in ("list", "tuple", "generator"):
                objs = [feature_from_line((PREFIX % (10 * i + 1, 10 * i + 5)) + t) for i, t in enumerate(texts)]
                data = objs if form == "list" else tuple(objs) if form == "tuple" else (o for o in objs)
                with quiet():
                    dd = A.proj_dialect(gffutils.DataIterator(data, checklines=c["cl"]).dialect)
                if stated(dd) != stated(c["exp"]):
                    out["fails"].append(("iterator_dialect_" + form, dd))
        if with_db:
            marker = len(texts) > c["cl"] + 1
            write_file(path, texts, marker=marker_line(c["exp"]) if marker else None)
            dbfn = path + ".db"
            d1, d2, ids = obs_db(path, dbfn, c["cl"])
            os.unlink(dbfn)
            if stated(d1) != stated(c["exp"]):
                out["fails"].append(("create_db_dialect", d1))
            if stated(d2) != stated(c["exp"]):
                out["fails"].append(("reopened_dialect" if "after_update_and_reopen" not in d2 else "dialect_after_update_and_reopen", d2))
            if marker:
                derived = "gene" in ids and "transcript" in ids
                if derived != (c["imp"] == "gtf"):
                    out["fails"].append(("importer_routing", sorted(ids)[:8]))
    except Exception as e:  # noqa
        out["fails"].append(("raised:" + type(e).__name__, str(e)[:200]))
    finally:
        if os.path.exists(path):
            os.unlink(path)
    return out


def run(ctx):
    thorough = ctx.tier == "thorough"
    maxlen = 4 if thorough else 3
    ctx.rule = ("D1: every window of <= %d lines over a menu of 12 attribute strings that differ in each dialect dimension and in weight (0..3 attributes), "
                "every checklines 0..%d (MC_Dialect), observed through DataIterator.dialect, create_db(...).dialect, FeatureDB(path).dialect, "
                "helpers.infer_dialect and the importer actually used (derived GTF features for a marker line beyond the window); D2: consistent files from random "
                "in-grammar mappings (Gen_Attr) with checklines 0, 1, 10; supplied dialects verbatim. Non-trivial: the window holds two different values for some "
                "dialect key, or the file is longer than the window; distinct by (lines, checklines).") % (maxlen, maxlen + 1)
    mc = ctx.tlc("MC_Dialect", MC_CFG % maxlen, expect="inv", label="windows x checklines: weighted majority, first-seen ties", timeout=2400)
    if not mc.ok:
        ctx.violation({"tlc": "MC_Dialect"}, "model:" + str(mc.violated), {"log": ctx.keep_log("MC_Dialect", mc.out)})
        return
    seen = {}
    for j in mc.json:
        seen[(tuple(j["lines"]), j["cl"])] = j
    cases = [seen[k] for k in sorted(seen)]
    ctx.exhaustive = True
    if not thorough:
        cases = ctx.rng.sample(cases, 4000)
    elif len(cases) > 60000:
        cases = ctx.rng.sample(cases, 60000)
        ctx.exhaustive = False
    n_db = 600 if not thorough else 6000
    work = [(k, c, ctx.scratch, k < n_db) for k, c in enumerate(cases)]
    res = core.pmap(run_case, work)
    for r in res:
        c = cases[r["k"]]
        for clause, got in r["fails"]:
            ctx.violation({"texts": [dec(t) for t in c["texts"]], "cl": c["cl"]}, clause, {"expected": c["exp"], "observed": got})
        win = c["per"][: c["cl"] + 1]
        mixed = any(dict(w, order=0) != dict(win[0], order=0) for w in win) if win else False
        ctx.count((c["lines"], c["cl"]), mixed or len(c["lines"]) > c["cl"] + 1)
    ctx.traces += len(cases)
    ctx.sample({"lines": [dec(t) for t in cases[-1]["texts"]], "checklines": cases[-1]["cl"], "expected_dialect": cases[-1]["exp"], "importer": cases[-1]["imp"]})
    # per-line inference through the public helper
    from gffutils import helpers
    done = set()
    for c in cases:
        for t, d in zip(c["texts"], c["per"]):
            s = dec(t)
            if s in done:
                continue
            done.add(s)
            got = A.proj_dialect(helpers.infer_dialect(s))
            if stated(got) != stated(d):
                ctx.violation({"text": s}, "infer_dialect", {"expected": d, "observed": got})
    # D2: consistent files
    from .c07 import random_seeds
    seeds = [s for s in random_seeds(ctx.rng, 12000 if thorough else 1500) if len(s["a"]) >= 2]
    p = ctx.path("seeds.json")
    with open(p, "w") as f:
        json.dump({"wordna": A.word_na([k for s in seeds for k, _ in s["a"]]), "seeds": seeds}, f)
    gen = ctx.tlc("Gen_Attr", GEN_CFG, env={"SEED_FILE": p, "MODE": "rt"}, label="render + classify consistent files")
    good = [c for c in gen.json if c["in"]]
    work = []
    for k, c in enumerate(good):
        cl = [0, 1, 10][k % 3]
        work.append((k, {"texts": [c["t"]] * 3, "cl": cl, "exp": c["fobs"], "imp": "gtf" if c["obs"]["fmt"] == "gtf" else "gff3"}, ctx.scratch, k < n_db // 2))
    for r in core.pmap(run_case, work):
        c = work[r["k"]][1]
        for clause, got in r["fails"]:
            ctx.violation({"texts": [dec(t) for t in c["texts"]], "cl": c["cl"]}, "consistent:" + clause, {"expected": c["exp"], "observed": got})
        ctx.count(("file", c["texts"][0], c["cl"]), True)
    ctx.traces += len(work)
    ctx.extra["consistent_files"] = len(work)
    # supplied dialect verbatim
    import gffutils
    path = ctx.path("sup.gff")
    write_file(path, ["ID=a;Name=b", "ID=c; Name=d;"])
    for k, c in enumerate(good[:40]):
        X = A.real_dialect(c["d"])
        with quiet():
            it = gffutils.DataIterator(path, dialect=copy.deepcopy(X))
            db = gffutils.create_db(path, ":memory:", dialect=copy.deepcopy(X), merge_strategy="create_unique", force_gff=True)
        for name, got in (("iterator", it.dialect), ("create_db", db.dialect)):
            if got != X:
                ctx.violation({"supplied": c["d"]}, "supplied_verbatim:" + name, {"observed": A.proj_dialect(got)})
        ctx.count(("supplied", c["d"]), True)
    ctx.assumptions += ["importer routing is observed through a GTF marker line placed beyond the inspected window"]


def replay(ctx, rec):
    c = rec["case"]
    if "texts" not in c:
        raise core.CannotReplay("no executable case in this replay file")
    # recompute the expectation with the specification (MaxLen large enough for the case) is costly; re-observe and compare with the stored expectation
    exp = rec["detail"]["expected"]
    r = run_case((0, {"texts": [enc(t) for t in c["texts"]], "cl": c["cl"], "exp": exp, "imp": "gtf" if exp["fmt"] == "gtf" else "gff3"}, ctx.scratch, True))
    return bool(r["fails"])
