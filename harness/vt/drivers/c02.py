"""C02 - GFF3 hierarchy.  Spec: GffDB (GffLine, CloseLevel2, Children/Parents, Rel1_Decl/Rel2_Decl); MC_DB02; Gen_DB (random forests)."""
import json
import os

from .. import core
from ..core import enc, dec
from .. import dbio

MC_CFG = """CONSTANT NN = %d
CONSTANT WordNA = {}
CONSTANT Deviations = {}
INIT Init
NEXT Next
CHECK_DEADLOCK FALSE
INVARIANT InvRels
INVARIANT InvInverse
INVARIANT InvNoSelf
INVARIANT InvStored
INVARIANT InvLevels
INVARIANT InvUpdateKeeps
INVARIANT InvBlockCompose
"""


def key(x):
    return json.dumps(x)


def run_case(c):
    """import the lines, observe the relations table and every children/parents query; return list of failing clauses"""
    fails = []
    text = "\n".join(dec(l["text"]) for l in c["lines"]) + "\n"
    try:
        db = dbio.create(text)
    except Exception as e:  # noqa
        return [("raised:" + type(e).__name__, str(e)[:200])]
    rows = [list(r) for r in dbio.rel_rows(db.conn)]
    if sorted(rows) != sorted(c["rels"]):
        fails.append(("relations_table", rows))
    # the same graph in MIXED notation: multi-parent features written as repeated keys (Parent=a;Parent=b), the last one as a comma list - the file's
    # dialect is "repeated keys" then, and the comma list still is a list
    multi = [k for k, l in enumerate(c["lines"]) if len(l["parents"]) >= 2]
    if len(multi) >= 2:
        mixed = []
        for k, l in enumerate(c["lines"]):
            ps = [dec(p) for p in l["parents"]]
            col = "ID=%s" % dec(l["id"]) + ("".join(";Parent=%s" % p for p in ps) if (k in multi and k != multi[-1]) else (";Parent=" + ",".join(ps) if ps else ""))
            mixed.append("chr1\ts\t%s\t1\t9\t.\t+\t.\t%s" % (dec(l["ftype"]), col))
        try:
            dbm = dbio.create("\n".join(mixed) + "\n")
            rows_m = [list(r) for r in dbio.rel_rows(dbm.conn)]
            if sorted(rows_m) != sorted(c["rels"]):
                fails.append(("relations_table_mixed_notation", rows_m))
        except Exception as e:  # noqa
            fails.append(("raised_mixed_notation:" + type(e).__name__, str(e)[:200]))
    stored = [l["id"] for l in c["lines"]]
    got_ids = dbio.ids_of(db.all_features())
    if got_ids != stored:
        fails.append(("stored_features", got_ids))
    for name, meth, exp in (("children", db.children, c["kids"]), ("parents", db.parents, c["pars"])):
        for e in exp:
            lvl = None if e["l"] == 0 else e["l"]
            try:
                got = dbio.ids_of(meth(dec(e["x"]), level=lvl))
            except Exception as ex:  # noqa
                fails.append((name + "_raised", type(ex).__name__))
                continue
            if len(set(map(key, got))) != len(got):
                fails.append((name + "_once", [dec(e["x"]), e["l"], got]))
            elif sorted(got) != sorted(e["ids"]):
                fails.append((name, [dec(e["x"]), e["l"], got]))
    for e in c["kidsExon"]:
        for ft in ("exon", ("exon",), ["exon", "nosuch"]):
            got = dbio.ids_of(db.children(dec(e["x"]), featuretype=ft))
            if sorted(got) != sorted(e["ids"]) or len(set(map(key, got))) != len(got):
                fails.append(("children_featuretype", [dec(e["x"]), got]))
    # iter_by_parent_childs: [parent] + children(parent)
    kids0 = {key(e["x"]): e["ids"] for e in c["kids"] if e["l"] == 0}
    # (ordering arguments may change the order of a unit's children, never which features they are)
    for kw in ({}, {"order_by": "start"}, {"order_by": "end", "reverse": True}):
        try:
            units = list(db.iter_by_parent_childs(featuretype="gene", **kw))
        except Exception as ex:  # noqa
            fails.append(("iter_by_parent_childs_raised", [kw, type(ex).__name__]))
            continue
        for unit in units:
            head = enc(unit[0].id)
            rest = [enc(f.id) for f in unit[1:]]
            if sorted(rest) != sorted(kids0.get(key(head), [])):
                fails.append(("iter_by_parent_childs", [dec(head), rest, kw]))
    # an update with one unrelated feature leaves the relations as they were
    try:
        from . import gen_db as G2
        with dbio.quiet():
            db.update([G2.real_feature(G2.feat("gene", 1, 9, [("ID", ["u"])]))], make_backup=False)
        rows2 = [list(r) for r in dbio.rel_rows(db.conn)]
        if sorted(rows2) != sorted(c["relsAfterUpdate"]):
            fails.append(("relations_after_update", rows2))
    except Exception as ex:  # noqa
        fails.append(("update_raised", type(ex).__name__))
    # Feature objects as arguments, order_by / reverse do not change the set
    for e in c["kids"]:
        if e["l"] == 0 and e["ids"]:
            try:
                f = db[dec(e["x"])]
            except Exception:  # dangling name
                continue
            got = dbio.ids_of(db.children(f, order_by="start", reverse=True))
            if sorted(got) != sorted(e["ids"]) and not any(cl == "relations_after_update" for cl, _ in fails):
                fails.append(("children_feature_arg", [dec(e["x"]), got]))
    return fails


def scaled_forest(cases, picks):
    """MC_DB02!InvBlockCompose lifts the model's answers to big files: block k is case picks[k] with every name suffixed _k.
    Returns (lines, expected relation rows, ids in file order)."""
    lines, rels, ids = [], [], []
    for k, ci in enumerate(picks):
        c = cases[ci]
        suf = "_%d" % k
        for l in c["lines"]:
            i = dec(l["id"]) + suf
            ids.append(i)
            ps = [dec(p) + suf for p in l["parents"]]
            lines.append("chr1\ts\t%s\t1\t9\t.\t+\t.\tID=%s%s" % (dec(l["ftype"]), i, (";Parent=" + ",".join(ps)) if ps else ""))
        for r in c["rels"]:
            rels.append([dec(r[0]) + suf, dec(r[1]) + suf, r[2]])
    return lines, rels, ids


def run_scaled(lines, rels, ids, path, probe):
    """import the big file into a FILE database, reopen it, compare the whole relations table, the stored order, and children/parents of the probed names"""
    import gffutils
    try:
        with dbio.quiet():
            db = gffutils.create_db("\n".join(lines) + "\n", path, from_string=True, force=True)
        db.conn.close()
        db = gffutils.FeatureDB(path)
        rows = sorted([p, c, l] for p, c, l in db.conn.execute("SELECT parent, child, level FROM relations").fetchall())
        if rows != sorted(rels):
            missing = [r for r in sorted(rels) if r not in rows][:3]
            extra = [r for r in rows if r not in sorted(rels)][:3]
            return "scaled:relations_table", {"missing": missing, "extra": extra, "n_lines": len(lines)}
        got = [f.id for f in db.all_features()]
        if got != ids:
            return "scaled:stored_features", {"n_stored": len(got), "n_lines": len(ids)}
        if db.count_features_of_type() != len(ids):
            return "scaled:count", {"count": db.count_features_of_type()}
        kids, pars = {}, {}
        for p, c, l in rels:
            kids.setdefault((p, l), set()).add(c)
            pars.setdefault((c, l), set()).add(p)
        stored = set(ids)
        for x in probe:
            for l in (1, 2):
                if x in stored:
                    g = [f.id for f in db.children(x, level=l)]
                    if len(set(g)) != len(g) or set(g) != (kids.get((x, l), set()) & stored):
                        return "scaled:children", {"x": x, "level": l, "observed": g[:10]}
                    g = [f.id for f in db.parents(x, level=l)]
                    if len(set(g)) != len(g) or set(g) != (pars.get((x, l), set()) & stored):
                        return "scaled:parents", {"x": x, "level": l, "observed": g[:10]}
        # deleting a few hundred features at once removes exactly their rows (and the rows mentioning them)
        gone = set(ids[::7])
        with dbio.quiet():
            db.delete(sorted(gone), make_backup=False)
        rows = sorted([p, c, l] for p, c, l in db.conn.execute("SELECT parent, child, level FROM relations").fetchall())
        want = sorted(r for r in rels if r[0] not in gone and r[1] not in gone)
        if rows != want:
            return "scaled:relations_after_bulk_delete", {"n_rows": len(rows), "expected": len(want)}
        if [f.id for f in db.all_features()] != [i for i in ids if i not in gone]:
            return "scaled:features_after_bulk_delete", None
        db.conn.close()
        return None, None
    except Exception as e:  # noqa
        return "scaled:raised:" + type(e).__name__, {"message": str(e)[:200]}
    finally:
        if os.path.exists(path):
            os.unlink(path)


def nontrivial(c):
    ids = [key(l["id"]) for l in c["lines"]]
    pos = {i: k for k, i in enumerate(ids)}
    for k, l in enumerate(c["lines"]):
        if len(l["parents"]) >= 2:
            return True
        for p in l["parents"]:
            if key(p) not in pos or pos[key(p)] > k:
                return True
    return any(e["l"] == 2 and e["ids"] for e in c["kids"])


def run(ctx):
    thorough = ctx.tier == "thorough"
    ctx.rule = ("D1: every Parent graph on 4 features (parents among earlier features and one dangling name: multi-parent, shared children, depth <= 4) x every "
                "permutation of the lines (MC_DB02, 24576 files), imported and queried through children/parents for every name and level None/1/2, featuretype "
                "filters, iter_by_parent_childs, the relations table itself; D2: random forests of 5-60 features (Gen_DB). Non-trivial: a feature with >= 2 parents, "
                "a dangling Parent, a child listed before its parent, or a non-empty level-2 set; distinct by (graph, line order).")
    mc = ctx.tlc("MC_DB02", MC_CFG % 4, expect="inv", label="all Parent graphs on 4 features x all line orders")
    if not mc.ok:
        ctx.violation({"tlc": "MC_DB02"}, "model:" + str(mc.violated), {"log": ctx.keep_log("MC_DB02", mc.out)})
        return
    cases = mc.json
    if len(cases) != 24576:
        raise core.MachineryError("expected 24576 cases, got %d" % len(cases))
    ctx.exhaustive = thorough
    if not thorough:
        cases = ctx.rng.sample(cases, 5000)
    res = core.pmap(run_case, cases)
    for c, fails in zip(cases, res):
        for clause, got in fails[:1]:
            ctx.violation({"lines": [dec(l["text"]) for l in c["lines"]], "raw_case": c}, clause, {"observed": got, "expected_rels": c["rels"]})
        ctx.count([[l["id"], l["parents"]] for l in c["lines"]], nontrivial(c))
    ctx.traces += len(cases)
    ctx.sample({"file": [dec(l["text"]) for l in cases[0]["lines"]], "expected_relations": [[dec(r[0]), dec(r[1]), r[2]] for r in cases[0]["rels"]]})
    from . import gen_db
    gen_db.random_forests(ctx, 1500 if thorough else 150)
    # D3: scaled forests (thousands of lines): the model's answers per block, composed by InvBlockCompose
    for k in range(3 if thorough else 1):
        picks = [ctx.rng.randrange(len(cases)) for _ in range(2500 if thorough else 700)]
        lines, rels, ids = scaled_forest(cases, picks)
        probe = ctx.rng.sample(ids, 150)
        bad, detail = run_scaled(lines, rels, ids, ctx.path("c02_scaled_%d.db" % k), probe)
        if bad:
            ctx.violation({"scaled": {"lines": lines, "rels": rels, "ids": ids, "probe": probe}, "n_lines": len(lines)}, bad, detail)
        ctx.count(("scaled", picks[:50]), True)
        ctx.traces += 1
        ctx.extra["scaled_forest_lines"] = len(lines)


def replay(ctx, rec):
    from . import gen_db
    if rec["case"].get("raw_case"):
        return bool(run_case(rec["case"]["raw_case"]))
    sc = rec["case"].get("scaled")
    if sc:
        return run_scaled(sc["lines"], sc["rels"], sc["ids"], ctx.path("c02_scaled_replay.db"), sc["probe"])[0] is not None
    return gen_db.replay_lines(ctx, rec)
