"""C06 - region() and limit= queries.  Spec: RegionI/Region (on Bins); MC_Region (TLC), ApaRegion (Apalache);
judge Trace_Region."""
import contextlib
import io
import json
import random

from .. import core
from . import handle_common as H

MAXC = 2 ** 29
MC_CFG = "INIT Init\nNEXT Next\nCHECK_DEADLOCK FALSE\nINVARIANT InvSound\nINVARIANT InvComplete\n"
TRACE_CFG = "INIT Init\nNEXT Next\nCHECK_DEADLOCK FALSE\n"
SIZES = [2 ** (17 + 3 * k) for k in range(5)]
TYPES = ["t1", "t2", "t3"]
STRANDS = ["+", "-", "."]


def boundary_coords():
    cs = set([1, 2, MAXC - 1, MAXC, MAXC + 1, MAXC + 131072])
    for k in (0, 1, 3):
        for m in (0, 1, 8):
            for d in (-1, 0, 1):
                v = m * SIZES[k] + d
                if v >= 1:
                    cs.add(v)
    return sorted(cs)


def make_db(feats):
    import gffutils
    lines = ["zz\t.\troot\t1\t1\t.\t.\t.\tID=ROOT", "zz\t.\tmid\t1\t1\t.\t.\t.\tID=MID;Parent=ROOT"]
    for n, f in enumerate(feats):
        # every third feature hangs below ROOT twice: directly and through MID ("each feature once" all the same)
        lines.append("%s\tsrc\t%s\t%d\t%d\t.\t%s\t.\tID=%s;Parent=%s" % (f["seqid"], f["ftype"], f["s"], f["e"], f["strand"], f["id"], "MID,ROOT" if n % 3 == 0 else "ROOT"))
    lines.append("zz\t.\tleaf\t1\t1\t.\t.\t.\tID=LEAF;Parent=" + ",".join(f["id"] for f in feats))
    with contextlib.redirect_stderr(io.StringIO()):
        db = gffutils.create_db("\n".join(lines) + "\n", ":memory:", from_string=True)
    extra = [{"id": "ROOT", "seqid": "zz", "s": 1, "e": 1, "strand": ".", "ftype": "root"},
             {"id": "MID", "seqid": "zz", "s": 1, "e": 1, "strand": ".", "ftype": "mid"},
             {"id": "LEAF", "seqid": "zz", "s": 1, "e": 1, "strand": ".", "ftype": "leaf"}]
    return db, feats + extra


def ft_arg(q):
    if q["anyType"]:
        return None
    if q["ftform"] == "str":
        return q["ftypes"][0]
    if q["ftform"] == "tuple":
        return tuple(q["ftypes"])
    return list(q["ftypes"])


def execute(db, q):
    """run one query through the API form it names; returns ids in the order yielded (['<raised:Type>'] if the call raises: no stored feature
    has such an id, so the judge reports the query as incomplete)"""
    try:
        return _execute(db, q)
    except Exception as e:  # noqa
        return ["<raised:%s>" % type(e).__name__]


def _execute(db, q):
    from gffutils.feature import Feature
    w = q["within"]
    strand = q["strand"] or None
    ft = ft_arg(q)
    s = q["s"] or None
    e = q["e"] or None
    form = q["form"]
    if q["api"] == "region":
        if form == "tuple":
            it = db.region(region=(q["seqid"], q["s"], q["e"]), completely_within=w, strand=strand, featuretype=ft)
        elif form == "string":
            it = db.region(region="%s:%d-%d" % (q["seqid"], q["s"], q["e"]), completely_within=w, strand=strand, featuretype=ft)
        elif form == "string3":
            it = db.region(region="%s:%d-%d:%s" % (q["seqid"], q["s"], q["e"], q["strand"]), completely_within=w, featuretype=ft)
        elif form == "feature":
            it = db.region(region=Feature(seqid=q["seqid"], start=q["s"], end=q["e"], strand=q["strand"]),
                           completely_within=w, strand=strand, featuretype=ft)
        else:  # kwargs (seqid may be omitted, one bound may be omitted)
            it = db.region(seqid=q["seqid"] or None, start=s, end=e, completely_within=w, strand=strand, featuretype=ft)
    else:
        lim = (q["seqid"], q["s"], q["e"]) if form == "tuple" else "%s:%d-%d" % (q["seqid"], q["s"], q["e"])
        caller = q["caller"]
        if caller == "all_features":
            it = db.all_features(limit=lim, completely_within=w, strand=strand, featuretype=ft)
        elif caller == "features_of_type":
            it = db.features_of_type(ft, limit=lim, completely_within=w, strand=strand)
        elif caller == "children":
            it = db.children("ROOT", limit=lim, completely_within=w, featuretype=ft)
        else:
            it = db.parents("LEAF", limit=lim, completely_within=w, featuretype=ft)
    return [f.id for f in it]


def stored(db):
    """the stored features as the specification's records: plain SQL on the handle's own connection (what a query has to be exact about)"""
    return [{"id": r[0], "seqid": r[1], "s": r[2], "e": r[3], "strand": r[4], "ftype": r[5]}
            for r in db.conn.execute("SELECT id, seqid, start, end, strand, featuretype FROM features ORDER BY rowid").fetchall()]


def line_of(f):
    return "%s\tsrc\t%s\t%d\t%d\t.\t%s\t.\tID=%s;Parent=ROOT" % (f["seqid"], f["ftype"], f["s"], f["e"], f["strand"], f["id"])


def history(ctx, rng, coords, k, path):
    """D3: ONE FeatureDB handle answers queries, is changed (update with features beyond every earlier extent / in other bins / on a new seqid; delete; a stored
    feature fetched, moved and written back with merge_strategy='replace'; a database created through a transform that moves features), and answers again.
    After every change the stored rows are read back and the answers of the same handle are judged against them.  Returns (dbs, events)."""
    import gffutils
    near = [c + rng.randint(-2, 2) for c in coords if c > 3]

    def rand_feats(n, tag, lo=1, hi=2 ** 30):
        out = []
        for i in range(n):
            a = rng.choice(near) if rng.random() < 0.6 else rng.randrange(lo, hi)
            a = max(lo, min(a, hi))
            b = min(a + int(rng.expovariate(1 / 150000.0)), 2 ** 31 - 2)
            out.append({"id": "%s%d" % (tag, i), "seqid": rng.choice(["c1", "c1", "c2", "C1"]), "s": a, "e": b, "strand": rng.choice(STRANDS), "ftype": rng.choice(TYPES)})
        return out
    shift = rng.choice([0, 0, SIZES[0], SIZES[1], 3 * SIZES[2] + 5])
    base = rand_feats(25, "a", hi=2 ** 27)
    lines = ["zz\t.\troot\t1\t1\t.\t.\t.\tID=ROOT"] + [line_of(f) for f in base]

    def mover(f):
        if shift and f.featuretype != "root" and int(f.attributes["ID"][0][1:]) % 3 == 0:
            f.start += shift
            f.end += shift
        return f
    with contextlib.redirect_stderr(io.StringIO()):
        db = gffutils.create_db("\n".join(lines) + "\n", path, from_string=True, transform=mover, force=True)
    dbs, events = [], []

    def ask(n_region, n_limit):
        snap = stored(db)
        dbs.append(snap)
        qc = sorted(set([f["s"] for f in snap] + [f["e"] for f in snap] + [f["s"] - 1 for f in snap if f["s"] > 1] + [f["e"] + 1 for f in snap] + coords[::7]))
        seqids = sorted(set(f["seqid"] for f in snap if f["seqid"] != "zz"))
        for q in gen_queries(rng, qc, n_region, n_limit, seqids, callers=["all_features", "features_of_type", "children"]):
            q["stage"] = len(dbs)
            events.append({"db": len(dbs), "q": q, "ids": execute(db, q)})
        # wide windows that reach beyond everything stored (one per seqid and mode)
        for sq in seqids:
            for w in (True, False):
                q = dict(api="region", seqid=sq, s=1, e=2 ** 31 - 2, within=w, strand="", form="kwargs", caller="region", anyType=True, ftypes=[], ftform="none", stage=len(dbs))
                events.append({"db": len(dbs), "q": q, "ids": execute(db, q)})
    ask(40, 25)
    steps = rng.sample(["update_beyond", "update_seqid", "delete", "move_replace", "update_beyond"], 3)
    for n, st in enumerate(steps):
        with contextlib.redirect_stderr(io.StringIO()):
            if st == "update_beyond":
                top = max(f["e"] for f in stored(db))
                new = rand_feats(6, "b%d_" % n, lo=min(top + 1, 2 ** 30), hi=min(top + 2 ** 27, 2 ** 30 + 2 ** 28))
                db.update("\n".join(line_of(f) for f in new) + "\n", from_string=True, make_backup=False)
            elif st == "update_seqid":
                new = [dict(f, seqid="c3") for f in rand_feats(5, "s%d_" % n)]
                db.update("\n".join(line_of(f) for f in new) + "\n", from_string=True, make_backup=False)
            elif st == "delete":
                ids = [f["id"] for f in stored(db) if f["id"] != "ROOT"]
                db.delete(rng.sample(ids, min(5, len(ids))), make_backup=False)
            else:
                ids = [f["id"] for f in stored(db) if f["id"] != "ROOT"]
                f = db[rng.choice(ids)]
                d = rng.choice([SIZES[0], SIZES[1] + 17, 5 * SIZES[2]])
                f.start += d
                f.end += d
                db.update([f], merge_strategy="replace", make_backup=False)
        ask(30, 20)
    db.conn.close()
    return dbs, events, [shift] + steps


def gen_queries(rng, coords, n_region, n_limit, seqids, callers=("all_features", "features_of_type", "children", "parents")):
    qs = []

    def pick_types():
        r = rng.random()
        if r < 0.5:
            return dict(anyType=True, ftypes=[], ftform="none")
        if r < 0.7:
            return dict(anyType=False, ftypes=[rng.choice(TYPES)], ftform="str")
        return dict(anyType=False, ftypes=rng.sample(TYPES, 2), ftform=rng.choice(["list", "tuple"]))

    for _ in range(n_region):
        a, b = sorted((rng.choice(coords), rng.choice(coords)))
        form = rng.choice(["tuple", "string", "string3", "feature", "kwargs", "kwargs", "kwargs"])
        q = dict(api="region", seqid=rng.choice(seqids), s=a, e=b, within=rng.random() < 0.5,
                 strand=rng.choice(["", "", "+", "-", "."]), form=form, caller="region")
        q.update(pick_types())
        if form in ("string3", "feature") and not q["strand"]:
            q["strand"] = rng.choice(STRANDS)
        if form == "kwargs":
            r = rng.random()
            if r < 0.3:
                q["s"] = 0
            elif r < 0.6:
                q["e"] = 0
            elif r < 0.8:
                q["seqid"] = ""
        qs.append(q)
    for _ in range(n_limit):
        a, b = sorted((rng.choice(coords), rng.choice(coords)))
        caller = rng.choice(list(callers))
        q = dict(api="limit", seqid=rng.choice(seqids), s=a, e=b, within=rng.random() < 0.5,
                 strand="", form=rng.choice(["tuple", "string"]), caller=caller)
        q.update(pick_types())
        if caller in ("all_features", "features_of_type") and rng.random() < 0.5:
            q["strand"] = rng.choice(STRANDS)
        if caller == "features_of_type" and q["anyType"]:
            q.update(anyType=False, ftypes=[rng.choice(TYPES)], ftform="str")
        qs.append(q)
    return qs


def nontrivial(q):
    if q.get("stage", 0) >= 2 or q["s"] == 0 or q["e"] == 0:
        return True
    for x in (q["s"], q["e"]):
        if x >= MAXC - 2:
            return True
        for z in SIZES:
            if min(x % z, z - x % z) <= 2:
                return True
    return False


def judge(ctx, dbs, events, label):
    p = ctx.path("region_%s.json" % label)
    with open(p, "w") as f:
        json.dump({"dbs": dbs, "events": [{"db": e["db"], "q": e["q"], "ids": e["ids"]} for e in events]}, f)
    run = ctx.tlc("Trace_Region", TRACE_CFG, env={"TRACE_FILE": p}, label="judge " + label)
    if run.distinct != 2 * ((len(events) + 63) // 64):
        raise core.MachineryError("judge visited %d states for %d events" % (run.distinct, len(events)))
    ctx.traces += len(events)
    return [(j["reject"] - 1, j["clause"]) for j in run.json if "reject" in j]


def report(ctx, dbs, events, rejects):
    drift = 0
    for idx, clause in rejects:
        if clause == "drift":
            drift += 1
            continue
        e = events[idx]
        ctx.violation({"feats": dbs[e["db"] - 1], "q": e["q"]}, clause, {"ids": e["ids"]})
    if drift:
        ctx.extra["alg_drift"] = ctx.extra.get("alg_drift", 0) + drift
        print("NOTE property=C06 %d results differ from the algorithmic layer but satisfy the statement (model drift, not a violation)" % drift)


def run(ctx):
    thorough = ctx.tier == "thorough"
    rng = ctx.rng
    ctx.rule = ("Features = all pairs of boundary coordinates (bin multiples +-1, 1, 2, 2**29+-1, 2**29+2**17) on two seqids with mixed strands/types; "
                "queries = seeded choices of (start,end) from the same set x {overlap, within} x API form (tuple, 'seqid:s-e', 'seqid:s-e:strand', Feature, "
                "kwargs with seqid or one bound omitted; limit= of all_features/features_of_type/children/parents as tuple or string) x strand x featuretype; "
                "plus random databases with coordinates anywhere below 2**31; plus histories on ONE handle (queries, then update beyond every earlier extent / on a new seqid, "
                "delete, move-and-replace of a stored feature, creation through a coordinate-moving transform, then the queries again - judged against the rows stored at that moment). Non-trivial: a query after a change of the handle's database, or a query bound within 2 of a bin boundary or >= 2**29-2, or one-sided; "
                "distinct by the full query.")
    mc = ctx.tlc("MC_Region", MC_CFG, expect="inv", label="pointwise soundness/completeness on boundary coordinates")
    if not mc.ok:
        ctx.violation({"tlc": "MC_Region"}, "model:" + str(mc.violated), {"log": ctx.keep_log("MC_Region", mc.out)})
        return
    import concurrent.futures as cf
    with cf.ThreadPoolExecutor(3) as ex:
        res = list(ex.map(lambda i: ctx.apalache("ApaRegion", i, timeout=300), ["SoundAll", "CompleteAll", "WrongGuard"]))
    ctx.extra["apalache"] = res
    for r in res:
        want = "Error" if r["inv"] == "WrongGuard" else "NoError"
        if r["result"] in ("timeout", "failed"):
            ctx.assumptions.append("Apalache lemma %s did not finish (%s)" % (r["inv"], r["result"]))
        elif r["result"] != want:
            ctx.violation({"apalache": r["inv"]}, "lemma:" + r["inv"], r)
    # --- boundary database
    coords = boundary_coords()
    feats = []
    n = 0
    for a in coords:
        for b in coords:
            if a <= b:
                n += 1
                feats.append({"id": "f%d" % n, "seqid": "c1" if n % 5 else "c2", "s": a, "e": b,
                              "strand": STRANDS[n % 3], "ftype": TYPES[(n // 3) % 3]})
    db, allf = make_db(feats)
    dbs = [allf]
    events = []
    qs = gen_queries(rng, coords, 12000 if thorough else 2500, 8000 if thorough else 1500, ["c1", "c1", "c2"])
    for q in qs:
        events.append({"db": 1, "q": q, "ids": execute(db, q)})
    # --- random databases
    for k in range(40 if thorough else 8):
        rf = []
        near = [c + rng.randint(-3, 3) for c in coords if c > 3]
        for i in range(60):
            if rng.random() < 0.5:
                a = rng.choice(near)
                b = a + int(rng.expovariate(1 / 200000.0))
            else:
                a = rng.randrange(1, 2 ** 30)
                b = a + int(rng.expovariate(1 / 3000000.0))
            b = min(b, 2 ** 31 - 2)
            rf.append({"id": "r%d" % i, "seqid": rng.choice(["c1", "c1", "c2", "C1"]), "s": a, "e": b,
                       "strand": rng.choice(STRANDS), "ftype": rng.choice(TYPES)})
        rdb, rall = make_db(rf)
        dbs.append(rall)
        qc = sorted(set([f["s"] for f in rf] + [f["e"] for f in rf] + [f["s"] - 1 for f in rf if f["s"] > 1] + [f["e"] + 1 for f in rf] + coords))
        for q in gen_queries(rng, qc, 400, 250, ["c1", "c2", "C1"]):       # seqids that differ only in letter case are different sequences
            events.append({"db": len(dbs), "q": q, "ids": execute(rdb, q)})
    # --- D3: histories on one handle (file databases and :memory:)
    nh = 0
    for k in range(60 if thorough else 12):
        path = ctx.path("c06_h%d.db" % k) if k % 2 == 0 else ":memory:"
        hseed = rng.randrange(2 ** 30)
        hd, he, steps = history(ctx, random.Random(hseed), coords, k, path)
        off = len(dbs)
        dbs += hd
        for e in he:
            e["db"] += off
            e["q"]["history"] = steps
            e["q"]["hseed"] = hseed
            e["q"]["hfile"] = k % 2 == 0
        events += he
        nh += 1
    ctx.extra["handle_histories"] = nh
    rej = judge(ctx, dbs, events, "all")
    report(ctx, dbs, events, rej)
    for e in events:
        ctx.count(e["q"], nontrivial(e["q"]))
    ctx.sample({"query": events[0]["q"], "returned_ids": events[0]["ids"][:12], "n_features_in_db": len(allf)})
    ctx.sample({"query": events[-1]["q"], "returned_ids": events[-1]["ids"][:12]})
    ctx.extra["events_by_caller"] = {}
    for e in events:
        c = e["q"]["caller"] + "/" + e["q"]["form"]
        ctx.extra["events_by_caller"][c] = ctx.extra["events_by_caller"].get(c, 0) + 1
    # the handle as a state machine: every history of MC_Handle on one live handle, this property's battery after every step
    H.check(ctx, "region", 4 if thorough else 3, 20000 if thorough else 1200)
    ctx.assumptions += ["features without coordinates ('.') are not part of the C06 domain",
                        "TLC integers are 32-bit: coordinates are < 2**31",
                        "Feature-form queries pass the Feature's strand also as strand=, so the verdict does not depend on whether region() honours or ignores the Feature's strand"]


def replay(ctx, rec):
    c = rec["case"]
    if "raw_handle" in c:
        return H.replay(ctx, rec, "region")
    if "q" not in c:
        raise core.CannotReplay("no executable case in this replay file")
    if "hseed" in c["q"]:       # an event of a handle history: the whole history is run again from its seed
        hd, he, _ = history(ctx, random.Random(c["q"]["hseed"]), boundary_coords(), 0, ctx.path("replay_h.db") if c["q"]["hfile"] else ":memory:")
        return any(cl != "drift" for _, cl in judge(ctx, hd, he, "replay"))
    feats = [f for f in c["feats"] if f["id"] not in ("ROOT", "LEAF", "MID")]
    db, allf = make_db(feats)
    ev = [{"db": 1, "q": c["q"], "ids": execute(db, c["q"])}]
    return any(cl != "drift" for _, cl in judge(ctx, [allf], ev, "replay"))
