"""C19 - no clobbering, queries never write.  Spec: MC_Files (files : path -> content, create with/without force, read actions)."""
import hashlib
import json
import os
import sqlite3

from .. import core
from ..core import enc, dec
from .. import dbio
from . import gen_db as G

MC_CFG = "CONSTANT Depth = %d\nCONSTANT Gen = %s\nCONSTANT WordNA = {}\nCONSTANT Deviations = {}\nSPECIFICATION Spec\nCHECK_DEADLOCK FALSE\n"
PROPS = "PROPERTY ReadsDontWrite\nPROPERTY NoClobber\nPROPERTY ForceFresh\n"
READ_KINDS = ["lookup", "all_features", "features_of_type", "children", "parents", "region", "interfeatures", "create_introns",
              "merge", "children_bp", "bed12", "counts", "iter_by_parent_childs", "inspect_handle"]


def sha(path):
    if not os.path.exists(path):
        return None
    with open(path, "rb") as f:
        return hashlib.sha256(f.read()).hexdigest()


def do_read(db, kind, rng=None):
    """one read-style call pattern, fully consumed; exceptions of the call itself are not this property's business"""
    from gffutils.exceptions import FeatureNotFoundError
    feats = list(db.all_features())
    ids = [f.id for f in feats]
    pick = ids if rng is None else rng.sample(ids, min(len(ids), 5))

    def safe(fn):
        try:
            r = fn()
            if hasattr(r, "__iter__") and not isinstance(r, (str, int, list, dict)):
                r = list(r)
            return r
        except Exception:  # noqa
            return None
    if kind == "lookup":
        for i in pick:
            safe(lambda: db[i])
        safe(lambda: db["no such key"])
        for f in feats[:3]:
            safe(lambda: db[f])
    elif kind == "all_features":
        safe(lambda: db.all_features(order_by="start", reverse=True))
        safe(lambda: db.all_features(limit=("chr1", 1, 100), strand="+", featuretype=["exon", "gene"]))
        safe(lambda: db.all_features(order_by=("seqid", "featuretype", "length"), completely_within=True, limit="chr1:1-50"))
    elif kind == "features_of_type":
        for t in ("gene", "exon", ("gene", "mRNA"), "nosuch"):
            safe(lambda: db.features_of_type(t, order_by="end"))
    elif kind in ("children", "parents"):
        m = getattr(db, kind)
        for i in pick:
            for lvl in (None, 1, 2, 3, 4):
                safe(lambda: m(i, level=lvl, order_by="start"))
            safe(lambda: m(i, featuretype="exon", limit=("chr1", 1, 10)))
    elif kind == "region":
        safe(lambda: db.region(seqid="chr1", start=1, end=100))
        safe(lambda: db.region("chr1:1-5", completely_within=True, strand="+"))
        safe(lambda: db.region(region=("chr1", 2, 7), featuretype="exon"))
        if feats:
            safe(lambda: db.region(feats[0]))
    elif kind == "interfeatures":
        safe(lambda: db.interfeatures(db.all_features(order_by=("seqid", "start")), new_featuretype="gap"))
        safe(lambda: db.interfeatures(db.features_of_type("exon", order_by="start"), merge_attributes=False))
    elif kind == "create_introns":
        safe(lambda: db.create_introns())
        safe(lambda: db.create_introns(grandparent_featuretype=None, parent_featuretype="mRNA"))
        safe(lambda: db.create_splice_sites())
    elif kind == "merge":
        safe(lambda: db.merge(db.all_features(order_by=("seqid", "featuretype", "strand", "start"))))
        safe(lambda: db.merge(db.features_of_type("exon", order_by="start"), merge_criteria=[]))
    elif kind == "children_bp":
        for i in pick:
            safe(lambda: db.children_bp(i, child_featuretype="exon"))
            safe(lambda: db.children_bp(i, child_featuretype="exon", merge=True))
    elif kind == "bed12":
        for i in pick:
            safe(lambda: db.bed12(i))
            safe(lambda: db.bed12(i, thick_featuretype=None, thin_featuretype=["exon"], name_field="Name"))
    elif kind == "counts":
        safe(lambda: db.count_features_of_type())
        safe(lambda: db.count_features_of_type("exon"))
        safe(lambda: db.featuretypes())
        safe(lambda: db.seqids())
    elif kind == "iter_by_parent_childs":
        safe(lambda: db.iter_by_parent_childs(featuretype="gene", order_by="start"))
    elif kind == "inspect_handle":
        safe(lambda: (db.dialect, db.directives, db.version, db.schema(), db._analyzed(), db.pragmas))
        safe(lambda: list(db.execute("SELECT count(*) FROM relations")))


def writes_of(stmts):
    """the statements that can change the database file (temp objects, transaction brackets and queries are not writes: vt.sqlclass)"""
    from ..sqlclass import Classifier
    c = Classifier()
    return [s for s in stmts if c.is_write(s)]


def snapshot(paths):
    out = {}
    for name, p in paths.items():
        out[name] = {"proj": G.canon_snap(dbio.proj_file(p)) if os.path.exists(p) and os.path.getsize(p) > 0 and _has_schema(p) else None,
                     "exists": os.path.exists(p), "sha": sha(p)}
    return out


def _has_schema(p):
    c = sqlite3.connect(p)
    try:
        return c.execute("SELECT count(*) FROM sqlite_master WHERE name='features'").fetchall()[0][0] == 1
    finally:
        c.close()


def expected_ok(exp, snap):
    """compare the specification's content of a path with the observed file; returns a clause or None"""
    if "absent" in exp:
        return "file_appeared" if snap["exists"] else None
    if "absentOrEmpty" in exp:
        if snap["proj"] is not None and snap["proj"]["feats"]:
            return "failed_forced_import_left_features"
        return None
    if snap["proj"] is None:
        return "file_missing"
    d = G.diff_clause(G.canon_snap(exp), snap["proj"])
    return d


def execute(hist, paths):
    import gffutils
    fails = []
    db = None
    for k, step in enumerate(hist):
        before = snapshot(paths)
        stmts = []
        st = "ok"
        try:
            with dbio.quiet():
                if step["op"] == "create":
                    try:
                        if step.get("form") == "text":      # GFF3 text with '##' directives, parsed in this very process
                            text = "".join("##%s\n" % dec(d) for d in step["dirs"]) + "".join(G.gff3_line(f) + "\n" for f in step["feats"])
                            db2 = gffutils.create_db(text, paths[step["path"]], from_string=True, force=step["force"], merge_strategy=step["strategy"])
                        else:
                            db2 = gffutils.create_db([G.real_feature(f) for f in step["feats"]], paths[step["path"]], force=step["force"], merge_strategy=step["strategy"])
                        db = db2
                    except Exception as e:  # noqa
                        st = "raise"
                elif step["op"] == "open":
                    db = gffutils.FeatureDB(paths[step["path"]])
                else:
                    db.conn.set_trace_callback(stmts.append)
                    do_read(db, step["kind"])
                    db.conn.set_trace_callback(None)
                    w = writes_of(stmts)
                    if w:
                        fails.append((k, "read_issued:" + w[0].strip().split(None, 1)[0].upper()))
        except Exception as e:  # noqa
            fails.append((k, "harness_step_raised:" + type(e).__name__))
        after = snapshot(paths)
        if st != step["st"]:
            fails.append((k, "status:%s_vs_%s" % (st, step["st"])))
        for name in paths:
            d = expected_ok(step["files"][name], after[name])
            if d:
                fails.append((k, "content_%s:%s" % (name, d)))
        untouched = list(paths) if step["op"] in ("read", "open") else []
        if step["op"] == "create" and not step["force"] and before[step["path"]]["exists"]:
            untouched = list(paths)            # refused: the occupied file (and the other one) stay as they are
        elif step["op"] == "create":
            untouched = [n for n in paths if n != step["path"]]
        for name in untouched:
            if before[name]["proj"] != after[name]["proj"]:
                fails.append((k, "logical_content_changed"))
            if before[name]["sha"] != after[name]["sha"]:
                # a refused create_db and a create_db on the other path must not touch the file at all; after a read-style call the statement
                # speaks of what is observed by reopening (checked above) and of writes (checked by the statement trace): other bytes are a note
                if step["op"] == "create":
                    fails.append((k, "file_bytes_changed"))
                else:
                    fails.append((k, "note:bytes_changed_content_same"))
    if db is not None:
        db.conn.close()
    return fails


def run_case(args):
    hist, d = args
    os.makedirs(d, exist_ok=True)
    paths = {"p1": os.path.join(d, "one.db"), "p2": os.path.join(d, "two.gffdb.sqlite3")}      # a database is a database whatever its file is called
    try:
        return execute(hist, paths)
    finally:
        import shutil
        shutil.rmtree(d, ignore_errors=True)        # (side files such as -wal / -shm next to a database are not this check's business)


def describe(hist):
    return [{k: (v if k != "feats" else [G.gff3_line(f) for f in v]) for k, v in s.items() if k != "files"} for s in hist]


D2_SRCS = ["FBgn0031208.gff", "FBgn0031208.gtf", "gff_example1.gff3", "issue_197.gff", "synthetic.gff3", "intro_docs_example.gff", "hybrid1.gff3", "ensembl_gtf.txt"]


def schema_objects(path):
    """names of the tables / indexes / views / triggers of the file (creating or dropping one is a write, whatever it holds)"""
    c = sqlite3.connect(path)
    try:
        return sorted(tuple(r) for r in c.execute("SELECT type, name FROM sqlite_master").fetchall())
    finally:
        c.close()


def one_random_db(ctx, src, pre_merge, case_seed, n_reads, path, drop_stats=False):
    """one data-file database, optionally a writer (merge_all) first, then a seeded random sequence of read-style calls;
    returns (clause or None, the sequence, statements traced, bytes-only note)"""
    import gffutils
    import random
    rng = random.Random(case_seed)
    data = os.path.join(core.REPO, "gffutils", "test", "data")
    try:
        with dbio.quiet():
            db = gffutils.create_db(os.path.join(data, src), path, merge_strategy="create_unique", keep_order=True, force=True)
    except Exception:  # noqa
        return None, [], [], False
    db.conn.close()
    if drop_stats or pre_merge:     # the database went through an update() (a second meta row, counters written again) before it is opened for reading
        try:
            with dbio.quiet():
                dbw = gffutils.FeatureDB(path)
                from gffutils.feature import Feature
                dbw.update([Feature(seqid="zz", source="s", featuretype="region", start=1, end=2, strand="+", attributes={"later_key": ["v"]})],
                           make_backup=False, merge_strategy="create_unique", id_spec=lambda f: "autoincrement:y")
                dbw.conn.close()
        except Exception:  # noqa
            pass
    if drop_stats:              # a database WITHOUT the statistics table (as written by other versions): opening it and reading from it still writes nothing
        c0 = sqlite3.connect(path)
        c0.execute("DROP TABLE IF EXISTS sqlite_stat1")
        c0.commit()
        c0.close()
    objects0 = schema_objects(path)
    content0 = G.canon_snap(dbio.proj_file(path))
    import warnings
    with dbio.quiet(), warnings.catch_warnings():
        warnings.simplefilter("ignore")
        db = gffutils.FeatureDB(path)
    if pre_merge:           # a WRITER ran on this handle before the reads (whatever it did is part of the "before" state)
        try:
            with dbio.quiet():
                db.merge_all(exclude_components=False)
            db.conn.commit()
        except Exception:  # noqa
            db.conn.rollback()
    if not pre_merge and schema_objects(path) != objects0:
        db.conn.close()
        os.unlink(path)
        return "open_changed_schema_objects", [], [], False
    if not pre_merge and G.canon_snap(dbio.proj_file(path)) != content0:
        db.conn.close()
        os.unlink(path)
        return "open_changed_content", [], [], False
    before = (G.canon_snap(dbio.proj_file(path)), sha(path), schema_objects(path))
    seq = [rng.choice(READ_KINDS) for _ in range(n_reads)]
    stmts = []
    db.conn.set_trace_callback(stmts.append)
    with dbio.quiet():
        for kind in seq:
            do_read(db, kind, rng)
    db.conn.set_trace_callback(None)
    bad = None
    w = writes_of(stmts)
    if w:
        bad = "read_issued:" + w[0].strip().split(None, 1)[0].upper()
    db.conn.close()
    after = (G.canon_snap(dbio.proj_file(path)), sha(path), schema_objects(path))
    if not bad and before[0] != after[0]:
        bad = "logical_content_changed"
    if not bad and before[2] != after[2]:
        bad = "schema_objects_changed"
    note = (not bad) and before[1] != after[1]
    os.unlink(path)
    return bad, seq, stmts, note


def random_reads(ctx, n_db, n_reads):
    """D2: random read sequences on databases built from the repository's data files"""
    for k in range(n_db):
        src = D2_SRCS[k % len(D2_SRCS)]
        case_seed = ctx.rng.randrange(2 ** 30)
        bad, seq, stmts, note = one_random_db(ctx, src, k % 2 == 1, case_seed, n_reads, ctx.path("d2_%d.db" % k), drop_stats=(k % 4 == 0))
        if note:
            ctx.extra["notes_bytes_changed_content_same"] = ctx.extra.get("notes_bytes_changed_content_same", 0) + 1
        if bad:
            ctx.violation({"data_file": src, "reads": seq, "pre_merge_all": k % 2 == 1, "case_seed": case_seed, "n_reads": n_reads, "drop_stats": k % 4 == 0}, bad, {"first_statements": [s[:120] for s in stmts[:5]]})
        ctx.count(("d2", src, seq), len(set(seq)) >= 2)
        ctx.extra["statements_traced"] = ctx.extra.get("statements_traced", 0) + len(stmts)
    ctx.traces += n_db


def repo_tests_traced(ctx):
    """D3: the repository's own tests run with every read-style FeatureDB call bracketed by an SQL statement trace (pytest plugin vt.pytest_c19)"""
    import subprocess
    import sys
    rep = ctx.path("c19_report.json")
    cwd = ctx.path("pytest_cwd")
    os.makedirs(cwd, exist_ok=True)
    env = dict(os.environ, VT_C19_REPORT=rep)
    p = subprocess.run([sys.executable, "-m", "pytest", "-q", "-p", "no:cacheprovider", "-p", "vt.pytest_c19", "--timeout=900", "--continue-on-collection-errors",
                        os.path.join(core.REPO, "gffutils", "test")], cwd=cwd, env=env, stdout=subprocess.PIPE, stderr=subprocess.STDOUT)
    tail = p.stdout.decode("utf-8", "replace").strip().splitlines()[-1:]
    if not os.path.exists(rep):
        ctx.assumptions.append("D3 (traced run of the repository's tests) produced no report: %s" % tail)
        return
    with open(rep) as f:
        r = json.load(f)
    ctx.extra["repo_tests_traced"] = {"summary": tail, "read_calls": r["calls"], "statements_during_reads": r["statements"]}
    for v in r["violations"]:
        ctx.violation({"repo_test_suite": True, "method": v["method"]}, "read_issued:" + v["statement"].split(None, 1)[0].upper(), {"statement": v["statement"]})
    ctx.traces += sum(r["calls"].values())
    ctx.count(("d3", sorted(r["calls"])), len(r["calls"]) >= 2, n=sum(r["calls"].values()))


def run(ctx):
    thorough = ctx.tier == "thorough"
    depth = 4 if thorough else 3
    ctx.rule = ("TLC explores every history of <= %d calls over {create_db(path in 2, source in {2-feature file, 4-feature tree, empty input}, force), FeatureDB(path), "
                "14 read-style call patterns} with action properties ReadsDontWrite, NoClobber, ForceFresh, and prints every behaviour; each is executed on real files with "
                "an sqlite3 statement trace on the handle's connection during reads (statements that can change the file: vt.sqlclass), and the logical content (fresh connection) and sha256 of BOTH files "
                "before/after every call. D2: random read sequences on databases built from the repository's data files. D3: the repository's own tests run under a pytest plugin "
                "that traces the statements of every read-style call. Non-trivial: an existing database at the path of a "
                "create, or >= 2 different read methods; distinct by the behaviour.") % depth
    mc = ctx.tlc("MC_Files", MC_CFG % (depth + 1, "FALSE") + "VIEW view\n" + PROPS, expect="inv", label="all histories to depth %d" % (depth + 1))
    if not mc.ok:
        ctx.violation({"tlc": "MC_Files"}, "model:" + str(mc.violated), {"log": ctx.keep_log("MC_Files", mc.out)})
        return
    gen = ctx.tlc("MC_Files", MC_CFG % (3, "TRUE") + "CONSTRAINT Emit\n", label="behaviours of length 3")
    hists = [j["h"] for j in gen.json]
    ctx.exhaustive = thorough
    if not thorough:
        hists = ctx.rng.sample(hists, 1500)
    work = [(h, ctx.path("c19_%d" % k)) for k, h in enumerate(hists)]
    res = core.pmap(run_case, work)
    for h, fails0 in zip(hists, res):
        notes = [f for f in fails0 if f[1].startswith("note:")]
        if notes:
            ctx.extra["notes_bytes_changed_content_same"] = ctx.extra.get("notes_bytes_changed_content_same", 0) + len(notes)
        fails = [f for f in fails0 if not f[1].startswith("note:")]
        for k, clause in fails[:1]:
            ctx.violation({"history": describe(h), "raw": h}, "step%d:%s" % (k, clause), {"all": fails[:6]})
        occupied_create = False
        have = set()
        kinds = set()
        for s in h:
            if s["op"] == "create":
                if s["path"] in have:
                    occupied_create = True
                if s["st"] == "ok":
                    have.add(s["path"])
            elif s["op"] == "read":
                kinds.add(s["kind"])
        ctx.count(describe(h), occupied_create or len(kinds) >= 2)
    ctx.traces += len(hists)
    ctx.sample({"history": describe(hists[0])})
    random_reads(ctx, 24 if thorough else 8, 12)
    repo_tests_traced(ctx)
    ctx.assumptions += ["'content untouched' is checked both logically (all six tables through a fresh connection) and byte-wise (sha256)",
                        "exceptions raised by a read call itself are ignored here; only its effects on the files are judged"]


def replay(ctx, rec):
    c = rec["case"]
    if "case_seed" in c:
        return one_random_db(ctx, c["data_file"], c["pre_merge_all"], c["case_seed"], c["n_reads"], ctx.path("d2_replay.db"), drop_stats=c.get("drop_stats", False))[0] is not None
    raw = rec["case"].get("raw")
    if not raw:
        raise core.CannotReplay("no executable case in this replay file")
    return bool([f for f in run_case((raw, ctx.path("replay"))) if not f[1].startswith("note:")])
