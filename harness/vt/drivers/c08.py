"""C08 - lossless values with a supplied dialect; parsing is total.
Spec: AttrSyntax (ParseWith/Render/Quote/Unquote/Infer), AttrGrammar (LosslessDomain, Dev_UnquotedGtfStripsEdgeBlanks);
MC_AttrEnum (all strings <= N over the structural alphabet), MC_Lossless, Gen_Attr(ll), Trace_Attr."""
import copy
import json

from .. import core
from ..core import enc, dec
from .. import attrs as A

ENUM_CFG = "CONSTANT N = %d\nCONSTANT WordNA = {}\nINIT Init\nNEXT Next\nCHECK_DEADLOCK FALSE\nINVARIANT TypeOK\nINVARIANT KeysOnce\n"
LL_CFG = "CONSTANT Explore = TRUE\nCONSTANT WordNA = {}\nINIT Init\nNEXT Next\nCHECK_DEADLOCK FALSE\nINVARIANT InvLossless\nINVARIANT InvF10\n"
GEN_CFG = "CONSTANT WordNA <- WordNAFromFile\nINIT Init\nNEXT Next\nCHECK_DEADLOCK FALSE\n"
F10 = "Dev_UnquotedGtfStripsEdgeBlanks"

# members of the character classes of MC_Lossless (representative -> other members)
CLASSES = {120: "abzAZ_09-./:", 9: "\t", 10: "\n", 13: "\r", 1: "\x01\x02\x08\x0b\x0c\x1b\x1f\x00", 127: "\x7f", 233: "éüßñæ", 20013: "中日本語",
           128512: "\U0001F600\U00010348\U0001F9EC", 133: "\x85\x80\x9f", 8232: "  ", 160: "\xa0　 ", 52: "0123456789ABCDEFabcdef",
           38: "&", 32: " ", 37: "%", 59: ";", 61: "=", 44: ",", 34: "\""}


def enum_dialects():
    from gffutils import constants
    d1 = copy.deepcopy(constants.dialect)
    d2 = copy.deepcopy(constants.dialect)
    d2.update({"fmt": "gtf", "keyval separator": " ", "field separator": "; ", "quoted GFF2 values": True, "trailing semicolon": True})
    d3 = copy.deepcopy(d2)
    d3.update({"leading semicolon": True, "repeated keys": True})
    return d1, d2, d3


def check_enum(j, ds):
    """returns (totality failure or None, drift bool)"""
    s = dec(j["s"])
    drift = False
    try:
        q, d = A.split_keyvals(s)
        a = A.proj_attrs(q)
        if a is None:
            return "types", False
        if {"attrs": a, "d": A.proj_dialect(d)} != j["inf"]:
            drift = True
    except A.NoEntrance:
        return None, False
    except Exception as e:  # noqa
        return "raised:" + type(e).__name__, False
    for w, dd in zip(("w1", "w2", "w3"), ds):
        try:
            q, _ = A.split_keyvals(s, dialect=copy.deepcopy(dd))
            a = A.proj_attrs(q)
            if a is None:
                return "types", False
            if a != j[w]:
                drift = True
        except Exception as e:  # noqa
            return "raised:" + type(e).__name__, False
    return None, drift


def lossless_on_code(a_json, d_json):
    """print a Feature built from the mapping with the dialect, re-parse with the same dialect"""
    from gffutils.feature import Feature, feature_from_line
    attrs = A.real_attrs(a_json)
    d = A.real_dialect(d_json)
    f = Feature(seqid="chr1", source="s", featuretype="gene", start=1, end=9, score=".", strand="+", frame=".",
                attributes=copy.deepcopy(attrs), dialect=copy.deepcopy(d), keep_order=True)
    first_print = str(f)
    hash(f)                       # (hashing and comparing print the object as well)
    line = str(f)
    if line != first_print:
        line = line + "\n<printed differently the second time>"      # the extra line makes the verdict: not a single line any more
    res = {"single_line": "\n" not in line and "\r" not in line, "ncols": len(line.split("\t")), "line": line}
    try:
        g = feature_from_line(line, dialect=copy.deepcopy(d), keep_order=True)
        res["attrs"] = A.proj_attrs(g.attributes)
        res["cols_same"] = (g.seqid, g.source, g.featuretype, g.start, g.end, g.score, g.strand, g.frame) == ("chr1", "s", "gene", 1, 9, ".", "+", ".")
        res["raised"] = ""
    except Exception as e:  # noqa
        res["raised"] = type(e).__name__
    return res


def instantiate(rng, a):
    """replace each class representative by a random member of its class"""
    out = []
    for k, vs in a:
        out.append([k, [[ord(rng.choice(CLASSES[c])) if c in CLASSES else c for c in v] for v in vs]])
    return out


def switch_history():
    """a legal earlier use of the process: every character that printing escapes is printed once while the documented module-level switch
    constants.ignore_url_escape_characters is on; the switch is then put back.  Nothing of it may outlast the restore (round 9: a memo did)."""
    from gffutils import constants
    from gffutils.feature import Feature
    old = constants.ignore_url_escape_characters
    constants.ignore_url_escape_characters = True
    try:
        chars = "".join(chr(i) for i in range(32)) + "\x7f%;=&,"
        str(Feature(seqid="chr1", source="s", featuretype="gene", start=1, end=9, attributes={"ID": [chars], "Note": list(chars)},
                    dialect=copy.deepcopy(__import__("gffutils").constants.dialect), keep_order=True))
    finally:
        constants.ignore_url_escape_characters = old


def _after_history(pairs):
    core.assert_repo()
    switch_history()
    return [lossless_on_code(a, d) for a, d in pairs]


def in_fresh_process_after_switch_history(pairs):
    import multiprocessing as mp
    with mp.get_context("spawn").Pool(1) as pool:
        return pool.apply(_after_history, (pairs,))


def judge_ll(ctx, rec, a, d, res, variant):
    """rec: the spec's record for (a, d) (dom, f10 flags); res: what the code did"""
    case = {"a": a, "d": d, "variant": variant}
    if variant.startswith("after_switch_history"):
        case["history"] = "switch_history"
    if not rec["dom"]:
        return
    bad = None
    if res["raised"]:
        bad = "raised:" + res["raised"]
    elif not res["single_line"] or res["ncols"] != 9:
        bad = "nine_columns"
    elif res["attrs"] != a:
        bad = "mapping"
    elif not res["cols_same"]:
        bad = "columns"
    if bad is None:
        return
    if rec["f10"] and bad == "mapping":
        ctx.known_finding(F10, "with a supplied GTF-style dialect without quoting, white space at the edges of a value is stripped on re-parsing (no escaping exists in that notation)")
        return
    ctx.violation(case, "lossless:" + bad, {"line": res.get("line"), "reparsed": res.get("attrs")})


def random_ll_seeds(rng, n):
    keys = ["ID", "Name", "_a.b-1", "gene_id", "Note", "k.2", "Dbxref"]
    gff_chars = "".join(CLASSES[c] for c in CLASSES)
    gtf_chars = "".join(CLASSES[c] for c in CLASSES if c not in (59, 34, 44, 9, 10, 13, 1, 127, 133))
    seeds = []
    for _ in range(n):
        gtf = rng.random() < 0.4
        chars = gtf_chars if gtf else gff_chars
        a = []
        for k in rng.sample(keys, rng.choice([1, 2, 3])):
            vs = [enc("".join(rng.choice(chars) for _ in range(rng.choice([1, 2, 3, 6, 12])))) for _ in range(rng.choice([1, 1, 2, 3]))]
            a.append([enc(k), vs])
        d = {"lead": False, "trail": rng.random() < 0.5, "quoted": rng.random() < 0.5, "fsep": enc(rng.choice([";", "; ", " ; "])),
             "kvsep": enc(" " if gtf else rng.choice(["=", " "])), "mvsep": enc(","), "fmt": "gtf" if gtf else "gff3",
             "rep": rng.random() < 0.4, "order": [k for k, _ in a]}
        seeds.append({"n": 0, "a": a, "d": d})
    return seeds


def random_strings(rng, n):
    pool = list(" ;=\",%ab12BE\t") + ["é", "中", "\U0001F600", "\xa0", " ", "_", "-", ".", "&", "%C3", "%A9", "%E4%B8%AD", "%F0%9F", "%80", "; ", " ; ", "ID=", "gene_id \"", "\";"]
    out = []
    for _ in range(n):
        out.append("".join(rng.choice(pool) for _ in range(rng.randint(0, 40))))
    return out


def run(ctx):
    thorough = ctx.tier == "thorough"
    N = 5 if thorough else 4
    ctx.rule = ("(b) every string of length <= %d over the structural alphabet {a ; blank = \" , %% 2 3 B} parsed by the inference path and under three supplied "
                "dialects (TLC evaluates the transcription on each string: totality by evaluation; the harness executes the real parser on each string); "
                "(a) MC_Lossless: 1-2 keys x values over 20 character classes x every GFF3-/GTF-style dialect dictionary, each also instantiated with a random other "
                "member of every class; random mappings and random Unicode strings beyond. Non-trivial: (b) >= 2 structural characters, (a) a value with a reserved or "
                "non-ASCII character; distinct by string / by (mapping, dialect).") % N
    # ---------- (b) totality + binding of Infer/ParseWith
    en = ctx.tlc("MC_AttrEnum", ENUM_CFG % N, expect="inv", label="all strings of length <= %d" % N, timeout=2400)
    if not en.ok:
        ctx.violation({"tlc": "MC_AttrEnum"}, "model:" + str(en.violated), {"log": ctx.keep_log("MC_AttrEnum", en.out)})
        return
    want = sum(10 ** k for k in range(N + 1))
    if len(en.json) != want:
        raise core.MachineryError("enumeration printed %d strings, expected %d" % (len(en.json), want))
    ds = enum_dialects()
    drift = 0
    for j in en.json:
        bad, dr = check_enum(j, ds)
        s = dec(j["s"])
        if bad:
            ctx.violation({"s": s}, "total:" + bad, None)
        drift += 1 if dr else 0
        ctx.count(("s", s), sum(1 for c in s if c in ';= ",%') >= 2)
    ctx.traces += len(en.json)
    ctx.sample({"string": dec(en.json[len(en.json) // 2]["s"]), "expected_inferred": en.json[len(en.json) // 2]["inf"]})
    # ---------- (a) lossless, bounded model
    ll = ctx.tlc("MC_Lossless", LL_CFG, expect="inv", label="lossless over character classes x dialect dictionaries")
    if not ll.ok:
        ctx.violation({"tlc": "MC_Lossless"}, "model:" + str(ll.violated), {"log": ctx.keep_log("MC_Lossless", ll.out)})
        return
    recs = ll.json
    if not thorough:
        recs = ctx.rng.sample(recs, 6000)
    for r in recs:
        res = lossless_on_code(r["a"], r["d"])
        judge_ll(ctx, r, r["a"], r["d"], res, "representative")
        # the printed text must be what the spec rendered (binding of Render / ParseWith for supplied dialects)
        if not res["raised"] and res["line"].split("\t")[8] != dec(r["t"]):
            drift += 1
        a2 = instantiate(ctx.rng, r["a"])
        res2 = lossless_on_code(a2, r["d"])
        judge_ll(ctx, r, a2, r["d"], res2, "instantiated")
        ctx.count(("ll", r["a"], r["d"]), any(c in (37, 59, 61, 38, 44, 34, 9, 10, 13) or c >= 128 for _, vs in r["a"] for v in vs for c in v), n=2)
    ctx.traces += 2 * len(recs)
    # the same cases once more in a process that has printed under the switch before (process-wide state left by an earlier, legal use)
    # (a NEW process: the history has to come before the first print of the process, so this one, which has printed already, cannot be used)
    again = ctx.rng.sample(recs, min(len(recs), 1500))
    for r, res in zip(again, in_fresh_process_after_switch_history([(r["a"], r["d"]) for r in again])):
        judge_ll(ctx, r, r["a"], r["d"], res, "after_switch_history")
    ctx.traces += len(again)
    ctx.extra["cases_after_switch_history"] = len(again)
    ctx.sample({"mapping": A.real_attrs(recs[0]["a"]), "dialect": recs[0]["d"], "printed_attribute_column": dec(recs[0]["t"])})
    # ---------- D2 lossless: random mappings, classified by the spec
    seeds = random_ll_seeds(ctx.rng, 20000 if thorough else 2500)
    p = ctx.path("llseeds.json")
    with open(p, "w") as f:
        json.dump({"wordna": [], "seeds": seeds}, f)
    gen = ctx.tlc("Gen_Attr", GEN_CFG, env={"SEED_FILE": p, "MODE": "ll"}, label="classify + render random mappings")
    for r in gen.json:
        res = lossless_on_code(r["a"], r["d"])
        judge_ll(ctx, r, r["a"], r["d"], res, "random")
        if not res["raised"] and res["line"].split("\t")[8] != dec(r["t"]):
            drift += 1
        if r["dom"] and not r["f10"] and not r["lossless"]:
            # the model itself predicts a loss inside the domain: a design-level counterexample
            ctx.violation({"a": r["a"], "d": r["d"]}, "model:lossless_domain", {"t": dec(r["t"]), "model_reparse": r["exp"]})
        ctx.count(("ll", r["a"], r["d"]), True)
    ctx.traces += len(gen.json)
    # ---------- D2 totality: random Unicode strings judged by Trace_Attr
    from .c07 import judge_infer
    strs = random_strings(ctx.rng, 20000 if thorough else 3000)
    events = [A.obs_infer(enc(s)) for s in strs]
    for idx, clause in judge_infer(ctx, events, "rand"):
        if clause == "drift":
            drift += 1
        else:
            ctx.violation({"s": strs[idx]}, "total:" + clause, {"observed": events[idx]})
    for s in strs:
        ctx.count(("s", s), True)
    ctx.extra["alg_drift"] = drift
    if drift:
        print("NOTE property=C08 %d results differ from the algorithmic layer although the statement holds (model drift, not a violation)" % drift)
    ctx.exhaustive = True
    ctx.assumptions += ["character classes: the code is assumed to treat the members of a class alike; classes are instantiated with seeded random members",
                        "dialect dictionaries: separator, trailing semicolon, repeated keys, quoting, fmt, key/value separator; 'leading semicolon' is FALSE and the multi-value separator is ','"]


def replay(ctx, rec):
    c = rec["case"]
    if "s" in c:
        ev = [A.obs_infer(enc(c["s"]))]
        from .c07 import judge_infer
        return ev[0]["raised"] or not ev[0]["typed"] or any(cl != "drift" for _, cl in judge_infer(ctx, ev, "replay"))
    if "a" in c:
        p = ctx.path("llseeds.json")
        with open(p, "w") as f:
            json.dump({"wordna": [], "seeds": [{"n": 0, "a": c["a"], "d": c["d"]}]}, f)
        gen = ctx.tlc("Gen_Attr", GEN_CFG, env={"SEED_FILE": p, "MODE": "ll"}, workers=1)
        n0 = len(ctx.violations)
        if c.get("history") == "switch_history":
            res = in_fresh_process_after_switch_history([(c["a"], c["d"])])[0]
        else:
            res = lossless_on_code(c["a"], c["d"])
        judge_ll(ctx, gen.json[0], c["a"], c["d"], res, "replay")
        return len(ctx.violations) > n0
    raise core.CannotReplay("the case could not be reconstructed from the model")
