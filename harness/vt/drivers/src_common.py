"""Shared by C13 and C14: render the specification's item sequences to files and observe the iterators / importer / inspect."""
import gzip
import itertools
import os
import warnings

from .. import core
from ..core import enc, dec
from .. import dbio

MC_CFG = "CONSTANT MaxItems = %d\nINIT Init\nNEXT Next\nCHECK_DEADLOCK FALSE\nINVARIANT InvNoLoss\nINVARIANT InvDirectives\nINVARIANT InvNothingAfterFasta\nINVARIANT InvF9\n"


def feature_line(n):
    ftype = "g" if n % 2 == 0 else "e"
    seqid = "c2" if n % 3 == 0 else "c1"
    attrs = "ID=f%d" % n if n % 2 == 0 else "ID=f%d;N=x" % n
    tail = "\t" if n % 4 == 1 else ""        # an empty tenth column: the line ends with a tab
    if n % 7 == 2 and n % 5 != 3:
        attrs = attrs.replace("ID=f%d" % n, "ID=f%d\x85y\u2028z\u2029" % n)      # NEL, LINE / PARAGRAPH SEPARATOR inside the value: only \n ends a line (str.splitlines() would split here)
    if n % 5 == 3:
        attrs, tail = "", ""                  # a feature with an EMPTY attributes column (no weight in the dialect vote, no ID)
    return "%s\ts\t%s\t%d\t%d\t.\t+\t.\t%s%s" % (seqid, ftype, n - 1, n + 5, attrs, tail)       # the first line of a file starts at coordinate 0


def render(kinds):
    lines = []
    for i, k in enumerate(kinds, 1):
        if k == "F":
            lines.append(feature_line(i))
        elif k == "D1":
            lines.append("##d1")
        elif k == "D2":
            lines.append("##gff-version 3")
        elif k == "D3":
            lines.append("###note")
        elif k == "D0":
            lines.append("##")
        elif k == "C":
            lines.append("#a comment" if i % 2 else "#!genome-build GRCx1")      # (a '#!' pragma line is a line beginning with a single '#')
        elif k == "B":
            lines.append("")
        elif k == "FASTA":
            lines.append("##FASTA")
        elif k == "H":
            lines.append(">chr1 header")
        else:
            lines.append("ACGTNNACGT")
    return "\n".join(lines) + "\n"


def fid(f):
    """position of a feature in its file: its start coordinate (feature_line(n) starts at n; every third-of-five line has no attributes at all)"""
    return int(f.start) + 1


def get_cases(ctx, maxitems, label):
    mc = ctx.tlc("MC_Source", MC_CFG % maxitems, expect="inv", label=label, timeout=2400)
    if not mc.ok:
        ctx.violation({"tlc": "MC_Source"}, "model:" + str(mc.violated), {"log": ctx.keep_log("MC_Source", mc.out)})
        return None
    seen = {}
    for j in mc.json:
        seen[(tuple(j["kinds"]), j["cl"])] = j
    return [seen[k] for k in sorted(seen)]


def quiet():
    return dbio.quiet()
