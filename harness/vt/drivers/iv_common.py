"""Shared by C15, C16, C18: random gene models, the Gen_Intervals oracle run, observations of the interval API."""
import json
import os

from .. import core
from ..core import enc, dec
from .. import dbio
from . import gen_db as G

MC_CFG = ("CONSTANT MaxN = %d\nCONSTANT MaxPos = %d\nCONSTANT Mode = \"%s\"\nCONSTANT PrintMod = %d\nCONSTANT WordNA = {}\nCONSTANT Deviations = {}\n"
          "CONSTANT NumTable <- MCNum\nINIT Init\nNEXT Next\nCHECK_DEADLOCK FALSE\nINVARIANT InvInter\nINVARIANT InvPartition\nINVARIANT InvUnion\nINVARIANT InvBp\n")
GEN_CFG = "CONSTANT WordNA = {}\nCONSTANT Deviations = {}\nCONSTANT NumTable <- NumFromFile\nINIT Init\nNEXT Next\nCHECK_DEADLOCK FALSE\n"
NUM = [[enc(str(n)), n * 1000] for n in range(0, 13)]


def view(f):
    return {"seqid": enc(f.seqid), "start": f.start, "end": f.end, "strand": enc(f.strand), "ftype": enc(f.featuretype),
            "attrs": sorted([[enc(k), [enc(v) for v in vs]] for k, vs in f.attributes.items()])}


def canon_view(v):
    return dict(v, attrs=sorted([[k, list(vs)] for k, vs in v["attrs"]]))


def random_model(rng):
    feats = []
    strand = rng.choice(["+", "-"])
    ng = rng.choice([1, 1, 2])
    n = 0
    shared = rng.random() < 0.2     # the first transcript's exons also belong to the gene's second transcript (Parent=t0,t1): each transcript has its own introns
    both = rng.random() < 0.15      # exons that name their transcript AND its gene as Parent: related to the gene at level 1 and at level 2
    for g in range(ng):
        gid = "g%d" % g
        gs = rng.randint(1, 20) + 100 * g
        tx = []
        for t in range(rng.choice([1, 1, 2])):
            tid = "t%d_%d" % (g, t)
            pos = gs
            ex = []
            for e in range(rng.choice([0, 1, 2, 3, 4])):
                gap = rng.choice([0, 0, 1, 2, 5, -2])      # touching / adjacent / overlapping exons too
                s = max(1, pos + gap)
                if ex and s <= ex[-1]["start"]:
                    s = ex[-1]["start"] + 1          # equal starts would leave the order of the blocks to SQL's tie-breaking
                ee = s + rng.randint(0, 6)
                n += 1
                attrs = [("ID", ["e%d" % n]), ("Parent", [tid, gid] if both else [tid]), ("exon_number", [str(rng.randint(1, 12))])]
                if rng.random() < 0.3:
                    attrs.append(("Note", [rng.choice(["x", "y"])]))
                ex.append(G.feat("exon", s, ee, attrs, strand=strand))
                pos = ee + 1
            cds = []
            if ex and rng.random() < 0.2:      # children whose type only LOOKS like exon / CDS (other letter case): never blocks, never thick
                n += 1
                cds.append(G.feat(rng.choice(["Exon", "cds", "EXON"]), ex[0]["start"] + 1000, ex[0]["start"] + 1003, [("ID", ["z%d" % n]), ("Parent", [tid])], strand=strand))
            for c in ex[: rng.choice([0, 1, 2])]:
                n += 1
                cds.append(G.feat("CDS", c["start"], c["end"], [("ID", ["c%d" % n]), ("Parent", [tid])], strand=strand))
            lo = min([x["start"] for x in ex] + [gs])
            hi = max([x["end"] for x in ex] + [gs + 3])
            if rng.random() < 0.15 and ex:
                hi += 2          # blocks do not span the transcript: bed12 must raise
            tx.append((G.feat("mRNA", lo, hi, [("ID", [tid]), ("Parent", [gid])] + ([("Name", ["n" + tid])] if rng.random() < 0.5 else []), strand=strand,
                              score=rng.choice([".", "7"])), ex, cds))
        if shared and len(tx) == 2:
            # the second transcript consists of the first one's exon records (no exons of its own: equal starts would tie)
            t1 = "t%d_1" % g
            for x in tx[0][1]:
                x["attrs"] = [[k, (vs + [enc(t1)]) if dec(k) == "Parent" else vs] for k, vs in x["attrs"]]
            tx[1] = (tx[1][0], [], [])
        lo = min(t[0]["start"] for t in tx)
        hi = max(t[0]["end"] for t in tx)
        block = [G.feat("gene", lo, hi, [("ID", [gid])], strand=strand)]
        for t, ex, cds in tx:
            block.append(t)
            block += ex + cds
        if rng.random() < 0.4:
            rng.shuffle(block)
        feats += block
    alphabet = [65, 67, 71, 84, 97, 99, 103, 116, 78] * 3 + [ord(c) for c in "RYKMBDHVWSryswkmbdhvn"]        # IUPAC ambiguity codes and soft-masked bases as well
    ref = [rng.choice(alphabet) for _ in range(rng.randint(20, 60))]
    qs = []
    for _ in range(6):
        s = rng.randint(1, len(ref))
        e = rng.randint(s, len(ref))
        qs.append({"s": s, "e": e, "strand": enc(rng.choice(["+", "-", "."])), "use": rng.random() < 0.7})
    return {"feats": feats, "numeric": rng.random() < 0.5, "mergeA": rng.random() < 0.8, "exclude": rng.random() < 0.5, "ref": ref, "queries": qs}


def oracle(ctx, models, label="interval operations on gene models"):
    p = ctx.path("models_%d.json" % len(ctx.tlc_runs))
    with open(p, "w") as f:
        json.dump({"num": NUM, "models": models}, f)
    run = ctx.tlc("Gen_Intervals", GEN_CFG, env={"SEED_FILE": p}, label=label)
    out = {j["k"]: j for j in run.json}
    if len(out) != len(models):
        raise core.MachineryError("oracle printed %d records for %d models" % (len(out), len(models)))
    return [out[k + 1] for k in range(len(models))]


def build(model, path=":memory:"):
    import gffutils
    with dbio.quiet():
        return gffutils.create_db([G.real_feature(f) for f in model["feats"]], path, force=True)


def model_lines(model):
    return [G.gff3_line(f) for f in model["feats"]]
