"""C04 - primary keys.  Spec: GffDB!DeriveId/TryItems/AutoId/Collide(create_unique); MC_DB04; Gen_DB for random inputs."""
import json
import os

from .. import core
from ..core import enc, dec
from .. import dbio
from . import gen_db as G
from . import handle_common as H

MC_CFG = """CONSTANT NF = %d
CONSTANT WordNA = {}
CONSTANT Deviations = {}
INIT Init
NEXT Next
CHECK_DEADLOCK FALSE
INVARIANT InvUnique
INVARIANT InvReject
INVARIANT InvFirstPresent
INVARIANT InvNumbering
INVARIANT InvCounters
"""


def observe(feats, cfg, dbfn=":memory:"):
    """create_db from Feature objects; returns (raised?, projection, lookup failures)"""
    import gffutils
    from gffutils.exceptions import FeatureNotFoundError
    objs = [G.real_feature(f) for f in feats]
    kw = G.real_kwargs(cfg)
    if cfg.get("importer") == "gtf":
        from .c05 import GTF_DIALECT
        kw["dialect"] = dict(GTF_DIALECT)
    try:
        with dbio.quiet():
            db = gffutils.create_db(objs, dbfn, **kw)
    except Exception as e:  # noqa
        return type(e).__name__, None, []
    snap = dbio.proj_db(db.conn)
    fails = []
    rows = list(db.all_features())
    for f in rows:
        try:
            g = db[f.id]
            h = db[f]
            if g.id != f.id or str(g) != str(f) or h.id != f.id:
                fails.append(("lookup_exact", f.id))
        except Exception as e:  # noqa
            fails.append(("lookup_raised", f.id))
    stored_ids = [f.id for f in rows]
    if any(not isinstance(i, str) for i in stored_ids):
        return None, snap, [("stored_key_is_not_text", repr([i for i in stored_ids if not isinstance(i, str)][:3]))]
    look = dbio.lookups(db, stored_ids)
    want = dbio.expected_lookups(snap["feats"], stored_ids)
    for k in stored_ids:
        if look[k] != want[k]:
            fails.append(("lookup_after_edit_of_returned_object", k))
            break
    pct = ["".join("%%%02X" % ord(ch) if n == 0 else ch for n, ch in enumerate(i)) for i in stored_ids if i]      # 'gene1' -> '%67ene1'
    for absent in ["no_such_key", "", "K_99"] + [i.swapcase() for i in stored_ids] + [i.upper() for i in stored_ids] + pct + [i.replace(":", "%3A") for i in stored_ids if ":" in i]:
        if absent in stored_ids:
            continue
        try:
            db[absent]
            fails.append(("absent_returns", absent))
        except FeatureNotFoundError:
            pass
        except Exception as e:  # noqa
            fails.append(("absent_raises_other:" + type(e).__name__, absent))
    return None, snap, fails


def text_route_rejects(feats, cfg):
    """the same features as GFF3 TEXT in which a multi-valued attribute is written as a repeated key on its line (ID=a;Name=n;ID=b), next to ordinary
    single-valued lines (so the file's dialect is NOT 'repeated keys'); returns None if the import raises, else the stored keys"""
    import gffutils
    lines = []
    for f in feats:
        parts = []
        for k, vs in f["attrs"]:
            if len(vs) >= 2:
                parts += ["%s=%s" % (dec(k), dec(v)) for v in vs]
            elif len(vs) == 1:
                parts.append("%s=%s" % (dec(k), dec(vs[0])))
            else:
                parts.append(dec(k))
        if len(parts) >= 3:
            parts = parts[:1] + parts[2:] + parts[1:2]         # the repeats of a key are not adjacent
        lines.append("chr1\ts\t%s\t1\t9\t.\t+\t.\t%s" % (dec(f["ftype"]), ";".join(parts)))
    for n in range(4):
        lines.append("chr1\ts\tregion\t1\t9\t.\t+\t.\tID=pad%d;Name=p%d" % (n, n))
    try:
        with dbio.quiet():
            db = gffutils.create_db("\n".join(lines) + "\n", ":memory:", from_string=True, **G.real_kwargs(cfg))
        return [f.id for f in db.all_features()]
    except Exception:  # noqa
        return None


def compare(ctx, case, exp_snap, raised, snap, fails, exact=True):
    if exp_snap["st"] == "raise":
        if raised is None:
            ctx.violation(case, "not_rejected", {"stored_keys": [dec(f["id"]) for f in snap["feats"]]})
            return
        sp = case["cfg"]["idspec"]
        if sp["kind"] == "list" and all(i["t"] == "attr" for i in sp["items"]) and all(vs for f in case["feats"] for _, vs in f["attrs"]) \
                and all(dec(v).isalnum() for f in case["feats"] for _, vs in f["attrs"] for v in vs):
            kept = text_route_rejects(case["feats"], case["cfg"])
            if kept is not None:
                ctx.violation(case, "not_rejected_text_route", {"stored_keys": kept})
        return
    if raised is not None:
        ctx.violation(case, "raised:" + raised, None)
        return
    want = G.canon_snap(exp_snap["db"])
    got = G.canon_snap(snap)
    if exact:
        # attribute order matters here: nothing is merged
        want["feats"] = exp_snap["db"]["feats"]
        got["feats"] = snap["feats"]
    bad = G.diff_clause(want, got)
    if bad:
        ctx.violation(case, bad, {"expected_keys": [dec(f["id"]) for f in exp_snap["db"]["feats"]], "observed_keys": [dec(f["id"]) for f in snap["feats"]],
                                  "expected_counters": want["ctr"], "observed_counters": got["ctr"]})
    for clause, what in fails[:1]:
        ctx.violation(case, clause, {"key": what})


def run_one(c):
    raised, snap, fails = observe(c["feats"], c["cfg"])
    return raised, snap, fails


def random_hist(rng, n):
    hist = []
    keys = ["ID", "Name", "Alias"]
    specs = [
        {"kind": "list", "items": [{"t": "attr", "k": enc("ID")}]},
        {"kind": "list", "items": [{"t": "attr", "k": enc("Alias")}, {"t": "attr", "k": enc("Name")}, {"t": "attr", "k": enc("ID")}]},
        {"kind": "dict", "map": [[enc("gene"), [{"t": "attr", "k": enc("Name")}]], [enc("mRNA"), [{"t": "attr", "k": enc("ID")}, {"t": "attr", "k": enc("Alias")}]]]},
        {"kind": "list", "items": [{"t": "field", "name": "strand"}]},
        {"kind": "list", "items": [{"t": "call", "fn": "type_start"}]},
        {"kind": "list", "items": [{"t": "call", "fn": "auto_seqid"}]},
        {"kind": "list", "items": [{"t": "call", "fn": "auto_colon"}]},
        {"kind": "list", "items": [{"t": "call", "fn": "name"}, {"t": "attr", "k": enc("ID")}]},
    ]
    for _ in range(n):
        feats = []
        for i in range(rng.randint(1, 25)):
            attrs = []
            for k in rng.sample(keys, rng.randint(0, 3)):
                nv = rng.choice([0, 1, 1, 1, 1, 2]) if rng.random() < 0.15 else 1
                attrs.append((k, [rng.choice(["a", "b", "c", "d", "e", "A", "B", "gene_1", "Gene_1", "x_1"]) + rng.choice(["", "", "1", "2"]) for _ in range(nv)]))
            feats.append(G.feat(rng.choice(["gene", "mRNA", "exon"]), rng.randint(1, 50), rng.randint(50, 90), attrs,
                                seqid=rng.choice(["chr1", "chr2"]), strand=rng.choice(["+", "-", "."])))
        cfg = dict(G.DEFAULT_CFG, idspec=rng.choice(specs), strategy="create_unique")
        hist.append({"init": {"feats": feats, "cfg": cfg, "dirs": []}, "steps": [], "rel": False})
    return hist


def gtf_spec_hist(rng, n):
    """GTF imports (explicit gene / transcript lines, inference off) under a caller's dict id_spec that names only SOME featuretypes:
    a featuretype without an entry is keyed '<featuretype>_<n>' - the importer's own defaults do not come back"""
    hist = []
    for _ in range(n):
        feats = []
        for g in range(rng.randint(1, 2)):
            gid, tid = "g%d" % g, "t%d" % g
            feats.append(G.feat("gene", 1, 90, [("gene_id", [gid])]))
            feats.append(G.feat("transcript", 1, 90, [("gene_id", [gid]), ("transcript_id", [tid])]))
            for e in range(rng.randint(1, 3)):
                attrs = [("gene_id", [gid]), ("transcript_id", [tid])] + ([("exon_id", ["E%d_%d" % (g, e)])] if rng.random() < 0.8 else [])
                feats.append(G.feat(rng.choice(["exon", "exon", "CDS"]), 10 * e + 1, 10 * e + 5, attrs))
        spec = rng.choice([{"kind": "dict", "map": [[enc("exon"), [{"t": "attr", "k": enc("exon_id")}]]]},
                           {"kind": "dict", "map": [[enc("exon"), [{"t": "attr", "k": enc("exon_id")}]], [enc("gene"), [{"t": "attr", "k": enc("gene_id")}]]]},
                           {"kind": "list", "items": [{"t": "attr", "k": enc("exon_id")}]}])
        cfg = dict(G.DEFAULT_CFG, idspec=spec, strategy="create_unique", importer="gtf", noT=True, noG=True)
        hist.append({"init": {"feats": feats, "cfg": cfg, "dirs": [], "gtf": True}, "steps": [], "rel": False})
    return hist


def counter_histories(rng, n):
    """create on a file, update with id-less features of a NEW featuretype, close and reopen, update again: numbering continues"""
    hist = []
    specs = [{"kind": "default"}, {"kind": "list", "items": [{"t": "attr", "k": enc("ID")}]},
             {"kind": "dict", "map": [[enc("gene"), [{"t": "attr", "k": enc("ID")}]]]}, {"kind": "list", "items": [{"t": "call", "fn": "auto_seqid"}]}]
    for _ in range(n):
        spec = rng.choice(specs)
        cfg = dict(G.DEFAULT_CFG, idspec=spec, strategy="create_unique")
        init = [G.feat("gene", 1, 9, [("ID", ["g%d" % i])] if rng.random() < 0.6 else []) for i in range(rng.randint(1, 3))]
        steps = []
        for k in range(rng.randint(2, 4)):
            ft = rng.choice(["exon", "exon", "CDS", "gene"])
            batch = [G.feat(ft, 10 * k + 1, 10 * k + 5, [("ID", ["e%d_%d" % (k, j)])] if rng.random() < 0.3 else [], seqid=rng.choice(["chr1", "chr2"]))
                     for j in range(rng.randint(1, 3))]
            steps.append({"op": "update", "feats": batch, "cfg": cfg, "backup": False})
            if rng.random() < 0.6:
                steps.append({"op": "reopen"})
            if rng.random() < 0.5:
                steps.append({"op": "delete", "ids": [], "pick": rng.randrange(1000), "backup": False})      # ids are chosen from the model's keys at that step
        hist.append({"init": {"feats": init, "cfg": cfg, "dirs": []}, "steps": steps, "rel": False})
    return hist


def resolve_deletes(ctx, ch):
    """delete steps name keys the model holds at that step: run the model, fill in the ids of the first unresolved delete of every history, repeat;
    finally every history carries its universe of keys (every key the model ever stored, and their case variants) for the look-ups"""
    for _ in range(6):
        exp = G.model(ctx, ch, label="auto-numbering across update / delete / reopen (look-ups on the live handle)")
        todo = False
        for h, e in zip(ch, exp):
            for k, s in enumerate(h["steps"]):
                if s["op"] == "delete" and not s["ids"]:
                    keys = [f["id"] for f in e["traj"][k]["db"]["feats"]]          # the state before step k (traj[0] is the created database)
                    if keys:
                        s["ids"] = [keys[s["pick"] % len(keys)]]
                        todo = True
                    else:
                        s["ids"] = [enc("nothing_to_delete")]
                    break
        if not todo:
            break
    for h, e in zip(ch, exp):
        keys = sorted(set(dec(f["id"]) for t in e["traj"] if t["st"] == "ok" for f in t["db"]["feats"]))
        h["universe"] = sorted(set(keys + [k.swapcase() for k in keys] + ["no_such_key"]))
    return exp


def lookup_clause(t, got, universe):
    """GffDB!Lookup: db[key] on the live handle is the feature the model stores under key at this step, FeatureNotFoundError otherwise"""
    want = dbio.expected_lookups(t["db"]["feats"], universe)
    for k in universe:
        o = got["look"].get(k)
        if o != want[k]:
            if want[k] == "notfound":
                return ("lookup_of_absent_key_returns", k, o)
            if o == "notfound":
                return ("lookup_of_stored_key_not_found", k, o)
            return ("lookup_not_the_stored_feature", k, o)
    return None


def run_history(args):
    """execute one history on a real file database; returns the projections after create and after every step"""
    import gffutils
    h, path = args
    out = []
    try:
        with dbio.quiet():
            db = gffutils.create_db([G.real_feature(f) for f in h["init"]["feats"]], path, force=True, **G.real_kwargs(h["init"]["cfg"]))
        uni = h.get("universe", [])
        out.append({"st": "ok", "db": dbio.proj_file(path), "look": dbio.lookups(db, uni)})
        for s in h["steps"]:
            if s["op"] == "reopen":
                db.conn.close()
                db = gffutils.FeatureDB(path)
                out.append({"st": "ok", "db": dbio.proj_file(path), "look": dbio.lookups(db, uni)})
                continue
            if s["op"] == "delete":
                with dbio.quiet():
                    db.delete([dec(i) for i in s["ids"]], make_backup=False)
                out.append({"st": "ok", "db": dbio.proj_file(path), "look": dbio.lookups(db, uni)})
                continue
            try:
                with dbio.quiet():
                    kw = G.real_kwargs(s["cfg"])
                    db.update([G.real_feature(f) for f in s["feats"]], make_backup=False, **kw)
                out.append({"st": "ok", "db": dbio.proj_file(path), "look": dbio.lookups(db, uni)})
            except Exception as e:  # noqa
                out.append({"st": "raise:" + type(e).__name__, "db": None})
                break
        db.conn.close()
    except Exception as e:  # noqa
        out.append({"st": "raise:" + type(e).__name__, "db": None})
    finally:
        if os.path.exists(path):
            os.unlink(path)
    return out


def nontrivial(c):
    sp = c["cfg"]["idspec"]
    default = sp["kind"] == "list" and len(sp["items"]) == 1 and sp["items"][0] == {"t": "attr", "k": enc("ID")}
    odd = any(all(dec(k) != "ID" for k, _ in f["attrs"]) or any(dec(k) == "ID" and len(vs) != 1 for k, vs in f["attrs"]) for f in c["feats"])
    return (not default) or odd


def run(ctx):
    thorough = ctx.tier == "thorough"
    nf = 3 if thorough else 2
    ctx.rule = ("D1: 1..%d features (type gene/exon; ID absent / valueless / one value / two values; Name absent / one / two values) x 16 id_spec forms (incl. tuples instead of lists) "
                "(default, string, lists, dicts of string/list, ':seqid:' / ':source:', callables returning None / a constant / 'autoincrement:X' / an attribute), "
                "enumerated by MC_DB04 with invariants KeysUnique, Reject, FirstPresent, Numbering, Counters; every case imported from Feature objects and compared "
                "row by row incl. persisted counters, db[key], db[feature], absent keys; D2: random feature lists x 7 further specs through Gen_DB. "
                "Non-trivial: non-default id_spec or a feature that lacks / multiply defines ID; distinct by (features, spec).") % nf
    mc = ctx.tlc("MC_DB04", MC_CFG % nf, expect="inv", label="features x id_spec forms", timeout=2400)
    if not mc.ok:
        ctx.violation({"tlc": "MC_DB04"}, "model:" + str(mc.violated), {"log": ctx.keep_log("MC_DB04", mc.out)})
        return
    cases = mc.json
    ctx.exhaustive = True
    limit = 40000 if thorough else 6000
    if len(cases) > limit:
        cases = ctx.rng.sample(cases, limit)
        ctx.exhaustive = False
    res = core.pmap(run_one, cases)
    for c, (raised, snap, fails) in zip(cases, res):
        case = {"feats": c["feats"], "cfg": c["cfg"], "lines": [dec(t) for t in c["texts"]]}
        compare(ctx, case, c["snap"], raised, snap, fails)
        ctx.count((c["feats"], c["spec"]), nontrivial(c))
    ctx.traces += len(cases)
    ctx.sample({"lines": [dec(t) for t in cases[0]["texts"]], "id_spec": cases[0]["cfg"]["idspec"],
                "expected_keys": [dec(f["id"]) for f in cases[0]["snap"]["db"]["feats"]], "expected_status": cases[0]["snap"]["st"]})
    hist = random_hist(ctx.rng, 3000 if thorough else 400) + gtf_spec_hist(ctx.rng, 300 if thorough else 60)
    exp = G.model(ctx, hist, label="random feature lists x id specs")
    for h, e in zip(hist, exp):
        raised, snap, fails = observe(h["init"]["feats"], h["init"]["cfg"], dbfn=ctx.path("c04.db") if ctx.rng.random() < 0.1 else ":memory:")
        case = {"feats": h["init"]["feats"], "cfg": h["init"]["cfg"], "lines": [G.gff3_line(f) for f in h["init"]["feats"]]}
        if raised == "OperationalError":
            raise core.MachineryError("leftover database file")
        compare(ctx, case, e["traj"][0], raised, snap, fails)
        ctx.count((h["init"]["feats"], h["init"]["cfg"]["idspec"]), True)
        import os
        if os.path.exists(ctx.path("c04.db")):
            os.unlink(ctx.path("c04.db"))
    ctx.traces += len(hist)
    # numbering across updates and reopenings (file databases)
    ch = counter_histories(ctx.rng, 600 if thorough else 120)
    exp = resolve_deletes(ctx, ch)
    obs = core.pmap(run_history, [(h, ctx.path("c04h_%d.db" % k)) for k, h in enumerate(ch)])
    for h, e, o in zip(ch, exp, obs):
        case = {"init": h["init"], "steps": h["steps"], "lines": [G.gff3_line(f) for f in h["init"]["feats"]] +
                ["# %s %s" % (s["op"], [G.gff3_line(f) for f in s.get("feats", [])]) for s in h["steps"]]}
        for k, (t, got) in enumerate(zip(e["traj"], o)):
            if got["st"] != "ok":
                if t["st"] == "ok":
                    ctx.violation(case, "step%d:%s" % (k, got["st"]), None)
                break
            bad = G.diff_clause(G.canon_snap(t["db"]), G.canon_snap(got["db"]))
            if bad:
                ctx.violation(case, "step%d:%s" % (k, bad), {"expected_keys": [dec(f["id"]) for f in t["db"]["feats"]], "observed_keys": [dec(f["id"]) for f in got["db"]["feats"]]})
                break
            bad = lookup_clause(t, got, h["universe"])
            if bad:
                ctx.violation(case, "step%d:%s" % (k, bad[0]), {"key": bad[1], "observed": bad[2] if isinstance(bad[2], str) else "a feature", "stored_keys": [dec(f["id"]) for f in t["db"]["feats"]]})
                break
        ctx.count(("hist", h["init"]["feats"], h["steps"]), True)
    ctx.traces += len(ch)
    # the handle as a state machine: every history of MC_Handle on one live handle, this property's battery after every step
    H.check(ctx, "lookup", 4 if thorough else 3, 20000 if thorough else 1200)
    ctx.assumptions += ["inputs are Feature objects (no text parsing involved); ':field:' specs are exercised with text columns",
                        "callables are a fixed menu mirrored by Python functions (none, const, autoincrement:seqid, Name attribute, type:start)"]


def replay(ctx, rec):
    c = rec["case"]
    if "raw_handle" in c:
        return H.replay(ctx, rec, "lookup")
    if "steps" in c:
        h = {"init": c["init"], "steps": c["steps"], "rel": False}
        e = G.model(ctx, [h], workers=1)[0]
        keys = sorted(set(dec(f["id"]) for t in e["traj"] if t["st"] == "ok" for f in t["db"]["feats"]))
        h["universe"] = sorted(set(keys + [k.swapcase() for k in keys] + ["no_such_key"]))
        o = run_history((h, ctx.path("replay.db")))
        for t, got in zip(e["traj"], o):
            if got["st"] != "ok":
                return t["st"] == "ok"
            if G.diff_clause(G.canon_snap(t["db"]), G.canon_snap(got["db"])) or lookup_clause(t, got, h["universe"]):
                return True
        return False
    if "feats" not in c:
        raise core.CannotReplay("no executable case in this replay file")
    hist = [{"init": {"feats": c["feats"], "cfg": c["cfg"], "dirs": []}, "steps": [], "rel": False}]
    e = G.model(ctx, hist, workers=1)[0]
    raised, snap, fails = observe(c["feats"], c["cfg"])
    n0 = len(ctx.violations)
    compare(ctx, c, e["traj"][0], raised, snap, fails)
    return len(ctx.violations) > n0
