"""C13 - input forms are equivalent; peeking never consumes; transform once; inspect counts.
Spec: Source.tla (StreamAfterPeek_Alg, Out_Alg/Out_Decl, TransformCalls_Decl, Inspect_Decl); MC_Source."""
import gzip
import itertools
import os
import warnings

from .. import core
from ..core import enc, dec
from .. import dbio
from . import src_common as S

FORMS = ["path", "gz", "string", "list", "generator", "iter", "map", "dataiterator", "featuredb", "url", "url_gz", "path_nonl", "url_gz_nonl"]
# url*: file:// URLs of the same files (the URL reader has its own line splitter); *_nonl: the same text WITHOUT a newline after the last line
LOOK = ["featuretype", "chrom", "attribute_keys", "feature_count"]
LOOK2 = ["start", "featuretype"]        # any attribute of the Feature objects may be tallied: coordinates too (0 is a value like any other)


def make_input(form, path, text, cl, store):
    """the same annotation in the given form (fresh object every time: one-shot forms are consumed)"""
    import gffutils
    from gffutils.feature import feature_from_line
    lines = [l for l in text.split("\n") if l and not l.startswith("#")]       # (split at \n only: NEL, LS, PS inside a value are not line ends)
    if form == "path":
        return path
    if form == "gz":
        return path + ".gz"
    if form == "url":
        return "file://" + path
    if form == "url_gz":
        return "file://" + path + ".gz"
    if form == "path_nonl":
        return path + ".nonl"
    if form == "url_gz_nonl":
        return "file://" + path + ".nonl.gz"
    if form == "string":
        return text
    objs = [feature_from_line(l) for l in lines]
    if form == "list":
        return objs
    if form == "generator":
        return (o for o in objs)
    if form == "iter":
        return iter(objs)                 # one-shot, but not a generator object
    if form == "map":
        return map(lambda o: o, objs)
    if form == "dataiterator":
        with S.quiet():
            return gffutils.DataIterator(path, checklines=cl)
    if form == "featuredb":
        return store["db"]
    raise ValueError(form)


def run_case(args):
    c, scratch, k = args
    import gffutils
    from gffutils import inspect as gi
    fails = []
    text = S.render(c["kinds"])
    if any(x in ("FASTA", "H", "J", "D3", "D0") for x in c["kinds"]):
        return fails          # FASTA sections are C14's subject; here all forms must see the same features
    base = os.path.join(scratch, "c13_%d_%d" % (os.getpid(), k))
    path = base + ".gff"
    want = c["feats"]
    store = {}
    try:
        with open(path, "w") as f:
            f.write(text)
        with gzip.open(path + ".gz", "wt") as f:
            f.write(text)
        with open(path + ".nonl", "w") as f:
            f.write(text[:-1] if text.endswith("\n") else text)
        with gzip.open(path + ".nonl.gz", "wt") as f:
            f.write(text[:-1] if text.endswith("\n") else text)
        if want:
            with S.quiet():
                store["db"] = gffutils.create_db(path, ":memory:")
        for form in FORMS:
            if form == "featuredb" and not want:
                continue
            cl = c["cl"]
            kw = {"from_string": True} if form == "string" else {}
            # (a) plain iteration
            with S.quiet():
                it = gffutils.DataIterator(make_input(form, path, text, cl, store), checklines=cl, **kw)
                feats_it = list(it)
                got = [S.fid(f) for f in feats_it]
            if got != want:
                fails.append(("iterate_%s" % form, got))
            elif [str(f) for f in feats_it] != [S.feature_line(n) for n in want]:
                fails.append(("iterate_content_%s" % form, [str(f) for f in feats_it]))
            # (b) transforms: drop a subset, and a recording tag; each feature exactly once, in order
            for dropset in ([], [1, 3], [2]):
                calls = []

                def tr(f, dropset=dropset, calls=calls):
                    calls.append(S.fid(f))
                    if S.fid(f) in dropset:
                        return False
                    f.attributes["tagged"] = ["yes"]
                    return f
                with S.quiet():
                    it = gffutils.DataIterator(make_input(form, path, text, cl, store), checklines=cl, transform=tr, **kw)
                    out = list(it)
                got = [S.fid(f) for f in out]
                exp = [n for n in want if n not in dropset]
                if got != exp:
                    fails.append(("transform_skip_%s" % form, got))
                if calls != want:
                    fails.append(("transform_calls_%s" % form, calls))
                if any(f.attributes.get("tagged") != ["yes"] for f in out):
                    fails.append(("transform_result_%s" % form, None))
            # (b2) a transform that RAISES on the second feature: the error reaches the caller at that item (a skipped feature is one for which the
            #      transform returned a false value - and only those), everything before it was yielded
            if len(want) >= 2:
                class Boom(Exception):
                    pass

                def tr2(f, bad=want[1]):
                    if S.fid(f) == bad:
                        raise Boom("transform failed on feature %d" % bad)
                    return f
                seen, err = [], None
                try:
                    with S.quiet():
                        for f in gffutils.DataIterator(make_input(form, path, text, cl, store), checklines=cl, transform=tr2, **kw):
                            seen.append(S.fid(f))
                except Boom:
                    err = "boom"
                except Exception as e:  # noqa
                    err = type(e).__name__
                if err != "boom":
                    fails.append(("transform_error_swallowed_%s" % form, [err, seen]))
                elif seen != want[:1]:
                    fails.append(("transform_error_position_%s" % form, seen))
            # (c) create_db from this form
            if want:
                with S.quiet(), warnings.catch_warnings():
                    warnings.simplefilter("ignore")
                    db = gffutils.create_db(make_input(form, path, text, cl, store), ":memory:", checklines=cl, **kw)
                got = [S.fid(f) for f in db.all_features()]
                if got != want:
                    fails.append(("create_db_%s" % form, got))
                # ... and with a transform that is NOT idempotent (it appends to an attribute and records its calls): exactly once per feature
                calls2 = []

                def tr3(f, calls2=calls2):
                    calls2.append(S.fid(f))
                    f.attributes["seen"] = list(f.attributes.get("seen", [])) + ["x"]
                    return f
                with S.quiet(), warnings.catch_warnings():
                    warnings.simplefilter("ignore")
                    dbt = gffutils.create_db(make_input(form, path, text, cl, store), ":memory:", checklines=cl, transform=tr3, **kw)
                if calls2 != want or any(list(f.attributes.get("seen", [])) != ["x"] for f in dbt.all_features()):
                    fails.append(("create_db_transform_once_%s" % form, calls2))
                lines_ref = [str(f) for f in store["db"].all_features()]
                if [str(f) for f in db.all_features()] != lines_ref:
                    fails.append(("create_db_content_%s" % form, None))
            # (d) inspect
            if form in ("path", "list", "generator", "featuredb"):
                shared = list(LOOK)       # the caller's own list, passed to several calls: it must come back untouched and every call must answer alike
                for limit, key in ((None, "inspect0"), (2, "inspect2")):
                    for look in (LOOK, ["featuretype"], ["chrom", "attribute_keys"], [], LOOK2, "default", "default", "shared", "shared"):
                        with S.quiet():
                            if look == "default":     # look_for left to its default, more than once in one process
                                r = gi.inspect(make_input(form, path, text, cl, store), limit=limit, verbose=False)
                                look = LOOK
                            elif look == "shared":
                                r = gi.inspect(make_input(form, path, text, cl, store), look_for=shared, limit=limit, verbose=False)
                                if shared != LOOK:
                                    fails.append(("inspect_changed_callers_list_%s" % form, shared))
                                look = LOOK
                            else:
                                r = gi.inspect(make_input(form, path, text, cl, store), look_for=list(look), limit=limit, verbose=False)
                        e = c[key]
                        expd = {"feature_count": e["feature_count"]}
                        for lk, ek in (("featuretype", "featuretype"), ("chrom", "chrom"), ("attribute_keys", "attribute_keys")):
                            if lk in look:
                                expd[lk] = {dec(x): n for x, n in e[ek]}
                        if "start" in look:
                            expd["start"] = {x: n for x, n in e["start"]}
                        if r != expd:
                            fails.append(("inspect_%s" % form, [look, limit, r]))
    except Exception as e:  # noqa
        fails.append(("raised:" + type(e).__name__, str(e)[:200]))
    finally:
        for p in (path, path + ".gz", path + ".nonl", path + ".nonl.gz"):
            if os.path.exists(p):
                os.unlink(p)
    return fails


GTF_TEXT = "".join('chr1\ts\texon\t%d\t%d\t.\t+\t.\tgene_id "g%d"; transcript_id "t%d"; note "a b";\n' % (10 * i + 1, 10 * i + 5, i, i) for i in range(4))


def other_dialect_forms(ctx):
    """the equivalence of input forms 'for every checklines value including 0' is not a property of the default dialect only: a GTF text"""
    import gffutils
    path = ctx.path("c13_other.gtf")
    with open(path, "w") as f:
        f.write(GTF_TEXT)
    with gzip.open(path + ".gz", "wt") as f:
        f.write(GTF_TEXT)
    want = [{"gene_id": ["g%d" % i], "transcript_id": ["t%d" % i], "note": ["a b"]} for i in range(4)]
    for cl in (0, 1, 2, 10):
        for form, arg, kw in (("path", path, {}), ("gz", path + ".gz", {}), ("string", GTF_TEXT, {"from_string": True}), ("url", "file://" + path, {})):
            try:
                with S.quiet():
                    got = [dict((k, list(v)) for k, v in f.attributes.items()) for f in gffutils.DataIterator(arg, checklines=cl, **kw)]
            except Exception as e:  # noqa
                got = "raised:" + type(e).__name__
            if got != want:
                return form, cl, got if isinstance(got, str) else got[:2]
    return None


def run(ctx):
    thorough = ctx.tier == "thorough"
    mi = 5 if thorough else 4
    ctx.rule = ("Every sequence of <= %d lines over {feature, directives, comment, blank} (MC_Source, FASTA-free subset) x checklines 0..%d, supplied in all nine forms "
                "(path, gzip path, from_string text, list of Features, one-shot generator, iter(list), map(...), DataIterator, FeatureDB): iterated feature sequence, create_db content, "
                "transform (none / drops {1,3} / drops {2}, each recording its calls), inspect() for 4 look_for subsets x limit None/2. Non-trivial: a one-shot form "
                "with checklines below the number of features, or a transform that drops something; distinct by (lines, checklines).") % (mi, mi + 1)
    cases = S.get_cases(ctx, mi, "item sequences x checklines")
    if cases is None:
        return
    cases = [c for c in cases if not any(x in ("FASTA", "H", "J", "D3", "D0") for x in c["kinds"])]
    ctx.exhaustive = True
    limit = 12000 if thorough else 1200
    if len(cases) > limit:
        cases = ctx.rng.sample(cases, limit)
        ctx.exhaustive = False
    res = core.pmap(run_case, [(c, ctx.scratch, k) for k, c in enumerate(cases)])
    for c, fails in zip(cases, res):
        for clause, got in fails[:1]:
            ctx.violation({"kinds": c["kinds"], "cl": c["cl"], "file": S.render(c["kinds"]).splitlines()}, clause, {"observed": got, "expected_features": c["feats"]})
        ctx.count((c["kinds"], c["cl"]), len(c["feats"]) > c["cl"] + 1 or any(n in (1, 2, 3) for n in c["feats"]))
    ctx.traces += len(cases) * len(FORMS)
    bad = other_dialect_forms(ctx)
    if bad:
        ctx.violation({"gtf_file": True, "form": bad[0], "cl": bad[1]}, "iterate_content_other_dialect", {"observed": bad[2]})
    ctx.sample({"file": S.render(cases[-1]["kinds"]).splitlines(), "checklines": cases[-1]["cl"], "expected_features": cases[-1]["feats"], "forms": FORMS})
    ctx.assumptions += ["URL input needs a network and is not run", "features are identified by their start coordinate (= position in the file)"]


def replay(ctx, rec):
    c = rec["case"]
    if c.get("gtf_file"):
        return other_dialect_forms(ctx) is not None
    if "kinds" not in c:
        raise core.CannotReplay("no executable case in this replay file")
    cases = S.get_cases(ctx, max(3, len(c["kinds"]), c["cl"] - 1), "recompute expectation")
    for j in cases or []:
        if j["kinds"] == c["kinds"] and j["cl"] == c["cl"]:
            return bool(run_case((j, ctx.scratch, 0)))
    raise core.CannotReplay("the case could not be reconstructed from the model")
