"""C20 - concurrent imports.  Spec: Concurrent.tla (MC_Concurrent: all interleavings, schedule generator), Trace_Concurrent (judge).
Real OS processes are driven through TLC-generated interleavings by an audit-hook scheduler (vt/audit_child.py)."""
import hashlib
import json
import os
import random
import re
import select
import shutil
import subprocess
import sys
import time

from .. import core
from ..core import enc, dec
from .. import dbio
from . import gen_db as G

MC_CFG = ("CONSTANT NP = %d\nCONSTANT Procs <- MCProcs\nCONSTANT Names <- MCNames\nCONSTANT Kind <- MCKind\nCONSTANT NameMode = \"%s\"\nINIT GInit\nNEXT GNext\n"
          "VIEW vars\nCHECK_DEADLOCK FALSE\nINVARIANT Isolation\nINVARIANT OwnFileOnly\nINVARIANT DistinctNames\nINVARIANT Cleanup\nINVARIANT SolitaryResult\n")
GEN_CFG = ("CONSTANT NP = %d\nCONSTANT Procs <- MCProcs\nCONSTANT Names <- MCNames\nCONSTANT Kind <- MCKind\nCONSTANT NameMode = \"fresh\"\nINIT GInit\nNEXT GNext\n"
           "CHECK_DEADLOCK FALSE\nCONSTRAINT EmitSched\n")
REF_CFG = ("CONSTANT NP = %d\nCONSTANT Procs <- MCProcs\nCONSTANT Names <- MCNames\nCONSTANT Kind <- MCKind\nCONSTANT NameMode = \"%s\"\nINIT EInit\nNEXT ENext\n"
           "CHECK_DEADLOCK FALSE\nINVARIANT DeclAccepts\n")
TRACE_CFG = "INIT TInit\nNEXT TNext\nCHECK_DEADLOCK FALSE\n"
PROTOCOL = ["mk", "wr", "rd", "rm", "done"]      # the steps of Concurrent.tla (the present code); anything else that ConcurrentDecl accepts is "drift"


class Child(object):
    def __init__(self, mode, inp, out, tmpdir, gated, delay=0.0):
        er, ew = os.pipe()
        cr, cw = os.pipe()
        env = dict(os.environ, TMPDIR=tmpdir, PYTHONHASHSEED="0")
        self.p = subprocess.Popen([sys.executable, "-m", "vt.audit_child", mode, inp, out, tmpdir, str(ew), str(cr), "1" if gated else "0"],
                                  pass_fds=(ew, cr), env=env, stdout=subprocess.DEVNULL, stderr=subprocess.PIPE)
        os.close(ew)
        os.close(cr)
        self.er, self.cw = er, cw
        self.buf = b""
        self.out = out

    def next_event(self, timeout=60):
        while b"\n" not in self.buf:
            r, _, _ = select.select([self.er], [], [], timeout)
            if not r:
                raise core.MachineryError("child did not report within %ss: %s" % (timeout, self.stderr_tail()))
            chunk = os.read(self.er, 65536)
            if not chunk:
                return {"ev": "crashed", "name": "", "stderr": self.stderr_tail()}
            self.buf += chunk
        line, self.buf = self.buf.split(b"\n", 1)
        return json.loads(line)

    def all_events(self):
        out = []
        while True:
            chunk = os.read(self.er, 65536)
            if not chunk:
                break
            self.buf += chunk
        for line in self.buf.split(b"\n"):
            if line.strip():
                out.append(json.loads(line))
        return out

    def release(self):
        os.write(self.cw, b"g")

    def stderr_tail(self):
        try:
            self.p.kill()
            return self.p.stderr.read().decode("utf-8", "replace")[-400:]
        except Exception:  # noqa
            return ""

    def finish(self):
        rc = self.p.wait(timeout=120)
        os.close(self.er)
        os.close(self.cw)
        self.p.stderr.close()
        return rc


def file_hash(path):
    try:
        with open(path, "rb") as f:
            return hashlib.sha1(f.read()).hexdigest()
    except OSError:
        return "missing"


def gated_run(inputs, schedule, base):
    """inputs: one path per process (1-based in the schedule); returns the recorded events, final listing, outputs"""
    tmpdir = os.path.join(base, "tmp")
    os.makedirs(tmpdir)
    # separate output files - with the SAME base name in different directories (sample1/annotation.db, sample2/annotation.db, ...)
    for i in range(len(inputs)):
        os.makedirs(os.path.join(base, "sample%d" % (i + 1)))
    kids = [Child("import", inp, os.path.join(base, "sample%d" % (i + 1), "annotation.db"), tmpdir, True) for i, inp in enumerate(inputs)]
    pending = [None] * len(kids)
    events = []
    try:
        # every process first runs up to its first gated step: interpreter start-up (incl. Python's own probe of TMPDIR) is over
        for i, k in enumerate(kids):
            pending[i] = k.next_event()
        for p in schedule:
            k = kids[p - 1]
            if pending[p - 1] is None:
                pending[p - 1] = k.next_event()
            e = pending[p - 1]
            if e["ev"] in ("done", "crashed"):
                continue        # the process took fewer shared-directory steps than the protocol has: the judge will say so
            rec = {"p": p, "ev": e["ev"], "name": e["name"], "listing": sorted(os.listdir(tmpdir)),
                   "content": file_hash(os.path.join(tmpdir, e.get("path", e["name"]))) if e["ev"] == "rd" else "", "outok": True}
            events.append(rec)
            k.release()
            pending[p - 1] = k.next_event()          # the step has been taken when the next report arrives
            if pending[p - 1]["ev"] == "crashed":
                events.append({"p": p, "ev": "crashed", "name": "", "listing": sorted(os.listdir(tmpdir)), "content": "", "outok": False})
        for i, k in enumerate(kids):
            e = pending[i] if pending[i] is not None else k.next_event()
            # a process with steps left (e.g. a second temp file) is released to the end, its extra steps are recorded
            while e["ev"] not in ("done", "crashed"):
                events.append({"p": i + 1, "ev": e["ev"], "name": e["name"], "listing": sorted(os.listdir(tmpdir)),
                               "content": file_hash(os.path.join(tmpdir, e.get("path", e["name"]))) if e["ev"] == "rd" else "", "outok": True})
                k.release()
                e = k.next_event()
            events.append({"p": i + 1, "ev": e["ev"], "name": "", "listing": sorted(os.listdir(tmpdir)), "content": "", "outok": True})
        rcs = [k.finish() for k in kids]
    except Exception:
        for k in kids:
            try:
                k.p.kill()
            except Exception:  # noqa
                pass
        raise
    final = sorted(os.listdir(tmpdir))
    outs = [G.canon_snap(dbio.proj_file(k.out)) if os.path.exists(k.out) else None for k in kids]
    return events, final, outs, rcs


def make_inputs(ctx, base):
    data = os.path.join(core.REPO, "gffutils", "test", "data")
    ins = {}
    gff = os.path.join(base, "a.gff3")
    with open(gff, "w") as f:
        f.write("##gff-version 3\nchr1\ts\tgene\t1\t100\t.\t+\t.\tID=g1\nchr1\ts\tmRNA\t1\t100\t.\t+\t.\tID=t1;Parent=g1\n"
                "chr1\ts\texon\t1\t20\t.\t+\t.\tID=e1;Parent=t1\nchr1\ts\texon\t40\t100\t.\t+\t.\tID=e2;Parent=t1\nchr1\ts\tCDS\t5\t20\t.\t+\t0\tParent=t1\n")
    gtf = os.path.join(base, "b.gtf")
    with open(gtf, "w") as f:
        for g in range(3):
            for e in range(3):
                f.write('chr2\ts\texon\t%d\t%d\t.\t-\t.\tgene_id "G%d"; transcript_id "T%d";\n' % (100 * g + 10 * e + 1, 100 * g + 10 * e + 8, g, g))
    cds = os.path.join(base, "c.gtf")           # nothing to infer: no exon lines
    with open(cds, "w") as f:
        for g in range(2):
            f.write('chr3\ts\tCDS\t%d\t%d\t.\t+\t0\tgene_id "H%d"; transcript_id "U%d";\n' % (50 * g + 1, 50 * g + 30, g, g))
    ins["gff"] = gff
    ins["gtf"] = gtf
    ins["gtf_cds"] = cds
    import gzip
    for name, src in (("gff_gz", gff), ("gtf_gz", gtf)):       # compressed inputs: whatever the reader needs to inflate them is its own to clean up
        with open(src, "rb") as fi, gzip.open(src + ".gz", "wb") as fo:
            fo.write(fi.read())
        ins[name] = src + ".gz"
    with open(gff, "rb") as fi, gzip.open(gff + ".fasta.gz", "wb") as fo:
        fo.write(fi.read() + b"##FASTA\n>chr1\nACGTACGTNN\n")
    ins["gff_gz_fasta"] = gff + ".fasta.gz"
    for name, fn in (("gff_real", "FBgn0031208.gff"), ("gtf_real", "FBgn0031208.gtf")):
        p = os.path.join(data, fn)
        if os.path.exists(p):
            ins[name] = p
    return ins


def solitary(inputs, base):
    """per input: projection of a solitary run and the content of its intermediate file when it is read back"""
    solo = {}
    for name, path in sorted(inputs.items()):
        b = os.path.join(base, "solo_" + name)
        os.makedirs(b)
        ev, final, outs, rcs = gated_run([path], [1], b)        # every step beyond the schedule is released and recorded at the end
        rd = [e for e in ev if e["ev"] == "rd"]
        solo[name] = {"db": outs[0], "contents": [e["content"] for e in rd], "steps": [e["ev"] for e in ev], "final": final, "rc": rcs[0]}
        shutil.rmtree(b)
    return solo


def judge(ctx, traces, label):
    names = sorted(set(e["name"] for t in traces for e in t["events"] if e["name"]) | set(n for t in traces for e in t["events"] for n in e["listing"]))
    p = ctx.path("conc_%s.json" % label)
    with open(p, "w") as f:
        json.dump({"names": names or ["none"], "maxnp": max(t["np"] for t in traces), "traces": traces}, f)
    run = ctx.tlc("Trace_Concurrent", TRACE_CFG, env={"TRACE_FILE": p}, label="judge " + label)
    for t in traces:
        for q in range(1, t["np"] + 1):
            if [e["ev"] for e in t["events"] if e["p"] == q] != PROTOCOL:
                ctx.extra["protocol_drift"] = ctx.extra.get("protocol_drift", 0) + 1
    if run.distinct != 2 * len(traces):
        raise core.MachineryError("judge visited %d states for %d traces" % (run.distinct, len(traces)))
    ctx.traces += len(traces)
    return [(j["reject"] - 1, j["clause"], j["at"]) for j in run.json if "reject" in j]


def run_gated(args):
    kinds, sched, base, inputs, solo = args
    os.makedirs(base)
    try:
        ev, final, outs, rcs = gated_run([inputs[k] for k in kinds], sched, base)
        for e in ev:
            if e["ev"] == "done":
                e["outok"] = outs[e["p"] - 1] == solo[kinds[e["p"] - 1]]["db"] and rcs[e["p"] - 1] == 0
        return {"np": len(kinds), "gated": True, "solo": [solo[k]["contents"] for k in kinds], "final": final, "events": ev, "kinds": kinds, "sched": sched}
    finally:
        shutil.rmtree(base, ignore_errors=True)


def burst(ctx, inputs, solo, n, base):
    """n free-running imports with random start offsets on one shared directory"""
    tmpdir = os.path.join(base, "tmp")
    os.makedirs(tmpdir)
    kinds = [ctx.rng.choice(sorted(inputs)) for _ in range(n)]
    kids = []
    for i, k in enumerate(kinds):
        os.makedirs(os.path.join(base, "sample%d" % i))
        kids.append(Child("import", inputs[k], os.path.join(base, "sample%d" % i, "annotation.db" if i % 2 else "o%d.db" % i), tmpdir, False))
        time.sleep(ctx.rng.choice([0, 0, 0.002, 0.01, 0.03]))
    traces = []
    for i, (k, kind) in enumerate(zip(kids, kinds)):
        rc = k.p.wait(timeout=300)
        ev = k.all_events()
        os.close(k.er)
        os.close(k.cw)
        k.p.stderr.close()
        out = G.canon_snap(dbio.proj_file(k.out)) if os.path.exists(k.out) else None
        events = []
        nrd = 0
        for e in ev:
            content = ""
            if e["ev"] == "rd":       # free-running: the content is not sampled (no gate), the per-process clauses and the output are judged
                content = solo[kind]["contents"][nrd] if nrd < len(solo[kind]["contents"]) else ""
                nrd += 1
            events.append({"p": 1, "ev": e["ev"], "name": e["name"], "listing": [], "content": content, "outok": out == solo[kind]["db"] and rc == 0})
        traces.append({"np": 1, "gated": False, "solo": [solo[kind]["contents"]], "final": [], "events": events, "kinds": [kind], "burst": n})
    final = sorted(os.listdir(tmpdir))
    shutil.rmtree(base, ignore_errors=True)
    return traces, final


def _fork_import(args):
    inp, out = args
    import gffutils
    import contextlib
    import io
    import warnings
    try:
        with contextlib.redirect_stderr(io.StringIO()), warnings.catch_warnings():
            warnings.simplefilter("ignore")
            db = gffutils.create_db(inp, out, force=True, merge_strategy="create_unique")
            db.conn.close()
        return None
    except Exception as e:  # noqa
        return "%s: %s" % (type(e).__name__, str(e)[:120])


def fork_burst(ctx, inputs, solo, n, base):
    """separate processes that were FORKED from one parent which had imported gffutils already (multiprocessing's default on this platform): whatever
    the importer computed at import time or cached per module is shared by all of them.  Outcome-based: every output equals its solitary run,
    nobody crashed, the shared temp dir is empty afterwards."""
    import multiprocessing as mp
    import tempfile
    import gffutils  # noqa: imported in the parent before the fork, on purpose
    tmpdir = os.path.join(base, "tmp")
    os.makedirs(tmpdir)
    kinds = [ctx.rng.choice(["gff", "gtf", "gff_real", "gtf_real"] if "gff_real" in inputs else ["gff", "gtf"]) for _ in range(n)]
    work = []
    for i, k in enumerate(kinds):
        os.makedirs(os.path.join(base, "f%d" % i))
        work.append((inputs[k], os.path.join(base, "f%d" % i, "annotation.db")))
    old_env, old_td = os.environ.get("TMPDIR"), tempfile.tempdir
    os.environ["TMPDIR"] = tmpdir
    tempfile.tempdir = tmpdir
    try:
        with mp.get_context("fork").Pool(min(n, 12)) as pool:
            errs = pool.map(_fork_import, work, 1)
    finally:
        tempfile.tempdir = old_td
        if old_env is None:
            os.environ.pop("TMPDIR", None)
        else:
            os.environ["TMPDIR"] = old_env
    bad = []
    for i, (k, e) in enumerate(zip(kinds, errs)):
        if e:
            bad.append(("forked:process_crashed", {"kind": k, "error": e}))
        elif not os.path.exists(work[i][1]) or G.canon_snap(dbio.proj_file(work[i][1])) != solo[k]["db"]:
            bad.append(("forked:output_differs_from_solitary_run", {"kind": k}))
    left = sorted(os.listdir(tmpdir))
    if left:
        bad.append(("forked:cleanup_directory_not_empty", {"listing": left[:6]}))
    shutil.rmtree(base, ignore_errors=True)
    return bad, kinds


def readers(ctx, inputs, n, base):
    import gffutils
    os.makedirs(base)
    path = os.path.join(base, "shared.db")
    with dbio.quiet():
        db = gffutils.create_db(inputs.get("gff_real", inputs["gff"]), path, merge_strategy="create_unique")
    db.conn.close()
    ref = Child("read", path, "-", base, False)
    ref.p.wait(timeout=120)
    want = [e for e in ref.all_events() if e["ev"] == "read"]
    kids = [Child("read", path, "-", base, False) for _ in range(n)]
    got = []
    for k in kids:
        k.p.wait(timeout=300)
        got.append([e for e in k.all_events() if e["ev"] == "read"])
    for k in kids + [ref]:
        os.close(k.er)
        os.close(k.cw)
        k.p.stderr.close()
    shutil.rmtree(base, ignore_errors=True)
    return want, got


def run(ctx):
    thorough = ctx.tier == "thorough"
    ctx.rule = ("TLC explores all interleavings of 2 and 3 importer processes (Isolation, OwnFileOnly, DistinctNames, Cleanup, SolitaryResult; NameMode 'fixed' and 'perKind' "
                "must break them) and prints every order in which two processes can take their four shared-directory steps (70 schedules). Real OS processes (GFF3 and GTF "
                "inputs, generated and from the repository's data) are driven through each schedule by the audit-hook scheduler; every event (mkstemp / open w / open r / unlink "
                "with the directory listing and, at read-back, the file content) is validated by Trace_Concurrent; outputs are compared with solitary runs. Free-running bursts "
                "of 2..24 (thorough ..48) processes with random start offsets and concurrent readers of one finished file complete the picture. Non-trivial: the temp-file "
                "lifetimes of two processes overlap in the executed schedule; distinct by (inputs, schedule).")
    for np_, mode, want in ((2, "fresh", None), (3, "fresh", None), (2, "fixed", "viol"), (2, "perKind", None)):
        r = ctx.tlc("MC_Concurrent", MC_CFG % (np_, mode), expect="inv", label="%d processes, names %s" % (np_, mode))
        if mode == "fresh" and not r.ok:
            ctx.violation({"tlc": "MC_Concurrent", "np": np_}, "model:" + str(r.violated), {"log": ctx.keep_log("MC_Concurrent", r.out)})
            return
        if mode == "fixed" and r.violated is None:
            ctx.violation({"tlc": "MC_Concurrent fixed names"}, "model:fixed_names_do_not_break_isolation", None)
        ctx.extra["names_%s_%d" % (mode, np_)] = r.violated or "all invariants hold"
    # the code-shaped protocol refines the declarative judge (and does not, with fixed names)
    for np_, mode in ((2, "fresh"), (2, "fixed")) + (((3, "fresh"),) if thorough else ()):
        r = ctx.tlc("MC_Concurrent", REF_CFG % (np_, mode), expect="inv", label="Concurrent refines ConcurrentDecl: %d processes, names %s" % (np_, mode))
        if (mode == "fresh") != r.ok:
            ctx.violation({"tlc": "MC_Concurrent refinement", "np": np_, "names": mode}, "model:DeclAccepts_%s" % ("violated" if mode == "fresh" else "holds_with_fixed_names"),
                          {"log": ctx.keep_log("MC_Concurrent_ref", r.out)})
        ctx.extra["refines_decl_%s_%d" % (mode, np_)] = r.violated or "DeclAccepts holds"
    gen = ctx.tlc("MC_Concurrent", GEN_CFG % 2, workers=4, label="schedules of two processes")
    scheds = sorted(set(tuple(int(x) for x in re.findall(r"\d+", m)) for m in re.findall(r"<<\"SCHED\", <<([0-9, ]+)>>>>", gen.out)))
    if len(scheds) != 70:
        raise core.MachineryError("expected 70 two-process schedules, got %d" % len(scheds))
    base = ctx.path("c20")
    os.makedirs(base)
    inputs = make_inputs(ctx, base)
    solo = solitary(inputs, base)
    ctx.extra["solitary_steps"] = {k: v["steps"] for k, v in solo.items()}
    for k, v in solo.items():
        if v["final"] or v["rc"] != 0:
            ctx.violation({"input": k}, "solitary_run_leaves_files", {"listing": v["final"], "rc": v["rc"]})
    kinds_menu = [("gff", "gtf"), ("gtf", "gff"), ("gtf", "gtf"), ("gff", "gff"), ("gtf_cds", "gtf"), ("gff", "gtf_cds"), ("gff_gz", "gtf_gz"), ("gtf_gz", "gff"), ("gff_gz_fasta", "gtf")]
    if "gff_real" in inputs:
        kinds_menu += [("gff_real", "gtf_real"), ("gtf_real", "gtf")]
    work = []
    for i, s in enumerate(scheds):
        menu = kinds_menu if thorough else [kinds_menu[i % len(kinds_menu)]]
        for kinds in menu:
            work.append((list(kinds), list(s), os.path.join(base, "g%d_%d" % (i, len(work))), inputs, solo))
    traces = core.pmap(run_gated, work, procs=8)
    if True:
        if thorough:
            gen3 = ctx.tlc("MC_Concurrent", GEN_CFG % 3, workers=4, label="all schedules of three processes", timeout=1800)
        else:
            gen3 = ctx.tlc("MC_Concurrent", GEN_CFG % 3, workers=1, simulate="num=40", depth=20, extra=["-seed", str(ctx.seed)],
                           label="simulated schedules of three processes", expect="inv")
        s3 = sorted(set(tuple(int(x) for x in re.findall(r"\d+", m)) for m in re.findall(r"<<\"SCHED\", <<([0-9, ]+)>>>>", gen3.out)))
        ctx.extra["three_process_schedules"] = len(s3)
        pick = ctx.rng.sample(s3, min(300 if thorough else 24, len(s3)))
        work3 = [([ctx.rng.choice(["gff", "gtf"]) for _ in range(3)], list(s), os.path.join(base, "h%d" % i), inputs, solo) for i, s in enumerate(pick)]
        traces += core.pmap(run_gated, work3, procs=5)
    for idx, clause, at in judge(ctx, traces, "gated"):
        t = traces[idx]
        ctx.violation({"kinds": t["kinds"], "schedule": t["sched"], "events": [[e["p"], e["ev"], e["name"]] for e in t["events"]]}, "gated:" + clause,
                      {"at_event": at, "final_listing": t["final"]})
    for t in traces:
        first_rm = min([i for i, e in enumerate(t["events"]) if e["ev"] == "rm"] + [10 ** 6])
        mks = [i for i, e in enumerate(t["events"]) if e["ev"] == "mk"]
        ctx.count((t["kinds"], t["sched"]), len(mks) >= 2 and mks[1] < first_rm)
    ctx.sample({"inputs": traces[0]["kinds"], "schedule": traces[0]["sched"], "events": [[e["p"], e["ev"], e["name"], e["listing"]] for e in traces[0]["events"]]})
    # free-running bursts
    sizes = [2, 8, 16, 24] + ([48] if thorough else [])
    for rep in range(3 if thorough else 1):
        for n in sizes:
            bt, final = burst(ctx, inputs, solo, n, os.path.join(base, "b%d_%d" % (n, rep)))
            for idx, clause, at in judge(ctx, bt, "burst%d_%d" % (n, rep)):
                ctx.violation({"burst": n, "kind": bt[idx]["kinds"], "events": [[e["ev"], e["name"]] for e in bt[idx]["events"]]}, "burst:" + clause, {"at_event": at})
            if final:
                ctx.violation({"burst": n}, "burst:cleanup_directory_not_empty", {"listing": final})
            ctx.count(("burst", n, rep), True, n=n)
    # forked workers (a parent that imported the library, then fork): same statement, other way of being "separate processes"
    for n in ([12, 24] if thorough else [12]):
        bad, kinds = fork_burst(ctx, inputs, solo, n, os.path.join(base, "fk%d" % n))
        for clause, detail in bad[:2]:
            ctx.violation({"forked": n, "kinds": kinds}, clause, detail)
        ctx.count(("forked", n), True, n=n)
        ctx.traces += n
    # concurrent readers of one finished file
    for n in ([4, 16, 32] if thorough else [4, 16]):
        want, got = readers(ctx, inputs, n, os.path.join(base, "r%d" % n))
        for g in got:
            if g != want or not want:
                ctx.violation({"readers": n}, "reader_sees_partial_content", {"expected": want, "observed": g})
        ctx.count(("readers", n), True, n=n)
        ctx.traces += n
    shutil.rmtree(base, ignore_errors=True)
    ctx.assumptions += ["cross-process order is imposed by the scheduler (exactly one process is released at a time); no wall-clock time is used for verdicts",
                        "free-running processes are validated per process (their own files, content, clean-up) plus the final directory listing",
                        "audit events are CPython's (tempfile.mkstemp, open, os.remove); files that sqlite itself might create in TMPDIR would show up in the listings"]


def replay(ctx, rec):
    c = rec["case"]
    if "input" in c and "schedule" not in c:       # a solitary run that left files behind / failed
        base = ctx.path("c20s")
        os.makedirs(base)
        v = solitary({c["input"]: make_inputs(ctx, base)[c["input"]]}, base)[c["input"]]
        return bool(v["final"]) or v["rc"] != 0
    if "forked" in c:
        base = ctx.path("c20f")
        os.makedirs(base)
        inputs = make_inputs(ctx, base)
        solo = solitary(inputs, base)
        return any(fork_burst(ctx, inputs, solo, c["forked"], os.path.join(base, "rf%d" % rep))[0] for rep in range(3))
    if "burst" in c:            # a free-running burst: run bursts of that size again (a race: three attempts) and judge every process
        base = ctx.path("c20b")
        os.makedirs(base)
        inputs = make_inputs(ctx, base)
        solo = solitary(inputs, base)
        for rep in range(3):
            bt, final = burst(ctx, inputs, solo, c["burst"], os.path.join(base, "rb%d" % rep))
            if final or judge(ctx, bt, "replay_burst%d" % rep):
                return True
        return False
    if "schedule" not in c:
        raise core.CannotReplay("no executable case in this replay file")
    base = ctx.path("c20r")
    os.makedirs(base)
    inputs = make_inputs(ctx, base)
    solo = solitary(inputs, base)
    t = run_gated((c["kinds"], c["schedule"], os.path.join(base, "g"), inputs, solo))
    return bool(judge(ctx, [t], "replay"))
