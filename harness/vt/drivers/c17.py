"""C17 - attribute container, JSON storage form, merge_attributes, Feature equality.  Spec: AttrStore.tla; MC_AttrStore; Gen_Merge; Gen_Attr (for equality)."""
import copy
import json

from .. import core
from ..core import enc, dec
from .. import attrs as A

OPS_CFG = ("CONSTANT Depth = %d\nCONSTANT Mode = \"ops\"\nCONSTANT WordNA = {}\nCONSTANT Deviations = {}\nCONSTANT NumTable <- MCNumTable\nINIT InitAll\nNEXT NextAll\nCHECK_DEADLOCK FALSE\n"
           "CONSTRAINT Emit\nINVARIANT InvSeqs\nINVARIANT InvSwitch\nINVARIANT InvKeysOnce\nINVARIANT InvPrintIgnoresSwitch\n")
LEAK = "Dev_SwitchLeaksIntoPrint"
LEAK_CFG = ("CONSTANT Depth = 2\nCONSTANT Mode = \"ops\"\nCONSTANT WordNA = {}\nCONSTANT Deviations = {\"%s\"}\nCONSTANT NumTable <- MCNumTable\nINIT InitAll\nNEXT NextAll\n"
            "CHECK_DEADLOCK FALSE\nINVARIANT InvPrintIgnoresSwitch\n" % LEAK)
MERGE_CFG = "CONSTANT Depth = 1\nCONSTANT Mode = \"merge\"\nCONSTANT WordNA = {}\nCONSTANT Deviations = {}\nCONSTANT NumTable <- MCNumTable\nINIT InitAll\nNEXT NextAll\nCHECK_DEADLOCK FALSE\nINVARIANT InvMerge\n"
GENM_CFG = "CONSTANT WordNA = {}\nCONSTANT NumTable <- NumFromFile\nINIT Init\nNEXT Next\nCHECK_DEADLOCK FALSE\n"


def val(v):
    return dec(v["scalar"]) if "scalar" in v else [dec(x) for x in v["list"]]


def view_of(attrs):
    out = []
    for k in attrs.keys():
        v = attrs[k]
        if isinstance(v, str):
            out.append([enc(k), {"scalar": enc(v)}])
        elif isinstance(v, (list, tuple)) and all(isinstance(x, str) for x in v):
            out.append([enc(k), {"list": [enc(x) for x in v]}])
        else:
            out.append([enc(k), {"bad": repr(v)[:60]}])
    return out


def run_ops(args):
    h, kind = args
    from gffutils import constants, helpers
    from gffutils.feature import Feature, feature_from_line
    from gffutils.attributes import Attributes
    constants.always_return_list = True
    if kind == "parsed":
        f = feature_from_line("chr1\t.\tgene\t1\t5\t.\t+\t.\t")
    else:
        import gffutils
        from .. import dbio
        with dbio.quiet():
            db = gffutils.create_db("chr1\t.\tgene\t1\t5\t.\t+\t.\tID=seed\n", ":memory:", from_string=True)
        f = db["seed"]
        del f.attributes["ID"]
    fails = []
    try:
        for k, s in enumerate(h):
            op = s["op"]
            if op == "load":
                raw = dict((dec(kk), val(vv)) for kk, vv in s["raw"])         # a plain dict, scalars left as scalars
                if kind == "parsed":
                    f = Feature(seqid="chr1", featuretype="gene", start=1, end=5, attributes=json.dumps(raw))      # the stored-JSON entrance
                else:
                    import gffutils
                    from .. import dbio
                    path = ":memory:" if len(h) % 2 else "/dev/shm/vt_c17_%d.db" % __import__("os").getpid()
                    with dbio.quiet():
                        db = gffutils.create_db([Feature(seqid="chr1", source="s", featuretype="gene", start=1, end=5, strand="+", attributes=raw)], path, force=True)
                        if path != ":memory:":
                            db.conn.close()
                            db = gffutils.FeatureDB(path)
                    f = list(db.all_features())[0]
                    if path != ":memory:":
                        db.conn.close()
                        __import__("os").unlink(path)
            elif op == "set":
                if s["via"] == "feature":
                    f[dec(s["k"])] = val(s["v"])
                else:
                    f.attributes[dec(s["k"])] = val(s["v"])
            elif op == "update":
                f.attributes.update(dict((dec(kk), val(vv)) for kk, vv in s["kvs"]))
            elif op == "del":
                del f.attributes[dec(s["k"])]
            elif op == "toggle":
                constants.always_return_list = not constants.always_return_list
            elif op == "json":
                txt = A.to_stored_json(f)
                if list(json.loads(txt).keys()) != list(f.attributes.keys()):
                    fails.append((k, "json_key_order"))
                # (decoded twice: the first result is edited in place before the second decode - the text alone decides what comes back)
                first = A.from_stored_json(txt)
                for _k, _v in A.stored_items(first):
                    if isinstance(_v, list):
                        _v.append("edited-after-decoding")
                f.attributes = A.from_stored_json(txt)
            if constants.always_return_list != s["sw"]:
                fails.append((k, "harness:switch"))
            # what str(feature) prints does not depend on the switch (a leak that matches the known finding exactly is reported as such)
            if kind == "parsed" and op != "json":
                try:
                    col = enc(str(f).split("\t", 8)[8])
                except Exception as e:  # noqa
                    col = "raised:" + type(e).__name__
                if col != s["printed"]:
                    fails.append((k, "known:" + LEAK if (col == s["printedLeak"] and not s["sw"]) else "printed_depends_on_switch" if not s["sw"] else "printed"))
                    if not fails[-1][1].startswith("known:"):
                        break
            got = view_of(f.attributes)
            if got != s["view"]:
                fails.append((k, "view"))
                break
            under = A.proj_attrs(f.attributes)
            if under != s["under"]:
                fails.append((k, "stored_values_are_lists"))
                break
            # JSON identity of the stored form at every step, for any content
            if A.proj_attrs(A.from_stored_json(A.to_stored_json(f))) != under:
                fails.append((k, "json_identity"))
    except Exception as e:  # noqa
        fails.append((len(h), "raised:" + type(e).__name__))
    finally:
        constants.always_return_list = True
    return fails


def merge_on_code(a1, a2, numeric, as_attrs, switch):
    from gffutils import constants, helpers
    from gffutils.attributes import Attributes
    d1, d2 = A.real_attrs(a1), A.real_attrs(a2)
    x1, x2 = (Attributes(d1), Attributes(d2)) if as_attrs else (d1, d2)
    b1, b2 = copy.deepcopy(d1), copy.deepcopy(d2)
    constants.always_return_list = switch
    try:
        r = helpers.merge_attributes(x1, x2, numeric_sort=numeric)
        res = [[enc(k), [enc(v) for v in vs]] for k, vs in r.items()] if all(isinstance(vs, list) and all(isinstance(v, str) for v in vs) for vs in r.values()) else "bad_types"
        raised = None
    except Exception as e:  # noqa
        res, raised = None, type(e).__name__
    finally:
        constants.always_return_list = True
    after1 = dict(A.stored_items(x1)) if as_attrs else x1
    after2 = dict(A.stored_items(x2)) if as_attrs else x2
    unchanged = after1 == b1 and after2 == b2 and list(after1.keys()) == list(b1.keys())
    return res, raised, unchanged


def numeric_ties_only(res, exp, numeric):
    """under numeric_sort, values that denote the SAME number ('1', '1.0', ' 1') tie: the statement asks for numeric order, not for an order among them"""
    if not numeric:
        return False
    r, e = dict((json.dumps(k), vs) for k, vs in res), dict((json.dumps(k), vs) for k, vs in exp)
    if set(r) != set(e):
        return False
    for k in e:
        if r[k] == e[k]:
            continue
        try:
            nums = [float(dec(v)) for v in r[k]]
        except ValueError:
            return False
        if sorted(map(json.dumps, r[k])) != sorted(map(json.dumps, e[k])) or nums != sorted(nums):
            return False
    return True


def check_merge(ctx, a1, a2, numeric, exp):
    for as_attrs in (False, True):
        for switch in (True, False):
            res, raised, unchanged = merge_on_code(a1, a2, numeric, as_attrs, switch)
            case = {"a1": A.real_attrs(a1), "a2": A.real_attrs(a2), "numeric_sort": numeric, "as_Attributes": as_attrs, "always_return_list": switch,
                    "raw": {"a1": a1, "a2": a2, "numeric": numeric}}
            if raised:
                ctx.violation(case, "merge_raised:" + raised, None)
            elif res == "bad_types":
                ctx.violation(case, "merge_types", None)
            elif sorted(res) != sorted(exp) and not numeric_ties_only(res, exp, numeric):
                ctx.violation(case, "merge_values", {"observed": A.real_attrs(res), "expected": A.real_attrs(exp)})
            elif not unchanged:
                ctx.violation(case, "merge_mutated_arguments", None)


def random_pairs(rng, n):
    vals = ["5", "4.2", "10", "05", " 5", "1e1", "-3", "x", "5.0", "é", "10 ", "", "nan?", "0.5"]
    keys = ["exon_number", "ID", "Parent", "n", "Note"]
    num = []
    for v in vals:
        try:
            f = float(v)
            if f == f and abs(f * 1000 - round(f * 1000)) < 1e-9:
                num.append([enc(v), int(round(f * 1000))])
        except ValueError:
            pass
    pairs = []
    for _ in range(n):
        def m():
            return [[enc(k), [enc(rng.choice(vals)) for _ in range(rng.choice([0, 1, 1, 2, 3]))]] for k in rng.sample(keys, rng.randint(0, 3))]
        pairs.append({"a1": m(), "a2": m(), "numeric": rng.random() < 0.5})
    return num, pairs


def run(ctx):
    thorough = ctx.tier == "thorough"
    depth = 4 if thorough else 3
    ctx.rule = ("(1) every sequence of %d container operations over {set scalar/list (incl. empty string, empty list, non-ASCII) through the attributes mapping or through the "
                "Feature, update, delete, toggle always_return_list, JSON round trip} (MC_AttrStore: InvSeqs, InvSwitch, InvKeysOnce), replayed on a parsed Feature and on a "
                "Feature from a database: view, stored form and JSON identity after every step; (2) all pairs of 7 mappings x numeric_sort (InvMerge: alg = decl) and random "
                "pairs (Gen_Merge), each as dicts and as Attributes under both switch settings, arguments compared before/after; (3) all pairs of 40 parsed lines: == iff "
                "printed lines equal, equal => same hash. Non-trivial: a scalar or empty-list set, a toggle, or mappings sharing a key; distinct by the case.") % depth
    mc = ctx.tlc("MC_AttrStore", OPS_CFG % depth, expect="inv", label="container operation sequences", timeout=1800)
    if not mc.ok:
        ctx.violation({"tlc": "MC_AttrStore"}, "model:" + str(mc.violated), {"log": ctx.keep_log("MC_AttrStore", mc.out)})
        return
    # the known finding, switched on, must break the invariant it is recorded against
    lk = ctx.tlc("MC_AttrStore", LEAK_CFG, expect="inv", label="deviation %s must break InvPrintIgnoresSwitch" % LEAK)
    ctx.extra["deviation_leak_breaks"] = lk.violated
    if lk.violated != "InvPrintIgnoresSwitch":
        ctx.violation({"deviation": LEAK}, "model:deviation_not_a_defect", {"violated": lk.violated})
    hs = [j["h"] for j in mc.json]
    ctx.exhaustive = True
    limit = 60000 if thorough else 6000
    if len(hs) > limit:
        hs = ctx.rng.sample(hs, limit)
        ctx.exhaustive = False
    work = [(h, "parsed" if k % 4 else "fromdb") for k, h in enumerate(hs)]
    res = core.pmap(run_ops, work)
    known = core.known_names("C17")
    for (h, kind), fails0 in zip(work, res):
        leaks = [f for f in fails0 if f[1] == "known:" + LEAK]
        fails = [f for f in fails0 if f[1] != "known:" + LEAK]
        if leaks:
            if LEAK in known:
                ctx.known_finding(LEAK, "with constants.always_return_list = False, str(feature) joins the characters of a single attribute value with commas ('gab' prints as 'g,a,b'): the switch changes more than the view")
            else:
                fails = [(leaks[0][0], "printed_depends_on_switch")] + fails
        for k, clause in fails[:1]:
            ctx.violation({"ops": [{kk: (vv if kk in ("op", "via", "sw") else None) for kk, vv in s.items() if kk in ("op", "via", "sw")} for s in h], "raw": h, "feature": kind},
                          "step%d:%s" % (k, clause), None)
        ctx.count(h, any(s["op"] in ("toggle", "update") or (s["op"] == "set" and ("scalar" in s["v"] or s["v"].get("list") == [])) for s in h))
    ctx.traces += len(hs)
    ctx.sample({"operations": [{"op": s["op"], "key": dec(s["k"]) if "k" in s else None, "value": val(s["v"]) if "v" in s else None, "via": s.get("via")} for s in hs[0]],
                "expected_final_view": hs[0][-1]["view"]})
    # (2) merge_attributes
    mm = ctx.tlc("MC_AttrStore", MERGE_CFG, expect="inv", label="merge_attributes: alg = decl on all menu pairs")
    if not mm.ok:
        ctx.violation({"tlc": "MC_AttrStore merge"}, "model:" + str(mm.violated), {"log": ctx.keep_log("MC_AttrStore_merge", mm.out)})
        return
    for j in mm.json:
        check_merge(ctx, j["a1"], j["a2"], j["numeric"], j["exp"])
        ctx.count(("merge", j["a1"], j["a2"], j["numeric"]), bool(set(map(str, [k for k, _ in j["a1"]])) & set(map(str, [k for k, _ in j["a2"]]))))
    num, pairs = random_pairs(ctx.rng, 5000 if thorough else 600)
    p = ctx.path("pairs.json")
    with open(p, "w") as f:
        json.dump({"num": num, "pairs": pairs}, f)
    gm = ctx.tlc("Gen_Merge", GENM_CFG, env={"SEED_FILE": p}, label="merge_attributes on random pairs")
    out = {j["k"]: j for j in gm.json}
    for k, pr in enumerate(pairs, 1):
        if not out[k]["agree"]:
            ctx.violation({"raw": pr}, "model:merge_alg_vs_decl", None)
        check_merge(ctx, pr["a1"], pr["a2"], pr["numeric"], out[k]["exp"])
        ctx.count(("merge", pr["a1"], pr["a2"], pr["numeric"]), True)
    ctx.traces += len(mm.json) + len(pairs)
    # (3) equality and hash
    from .c07 import random_seeds
    from gffutils.feature import feature_from_line
    base = [sd for sd in random_seeds(ctx.rng, 80) if len(sd["a"]) >= 2][:30]
    seeds = []
    for sd in base:
        seeds.append(sd)
        rev = dict(sd, a=list(reversed(sd["a"])), d=dict(sd["d"], order=[k for k, _ in reversed(sd["a"])]))
        seeds.append(rev)                    # same content, attributes in the opposite order
        alt = dict(sd, d=dict(sd["d"], trail=not sd["d"]["trail"]))
        seeds.append(alt)                    # same content, another dialect (trailing semicolon)
    sp = ctx.path("eqseeds.json")
    with open(sp, "w") as f:
        json.dump({"wordna": A.word_na([k for s in seeds for k, _ in s["a"]]), "seeds": seeds}, f)
    gen = ctx.tlc("Gen_Attr", "CONSTANT WordNA <- WordNAFromFile\nINIT Init\nNEXT Next\nCHECK_DEADLOCK FALSE\n", env={"SEED_FILE": sp, "MODE": "rt"}, label="lines for equality pairs")
    good = [c for c in sorted(gen.json, key=lambda c: c["k"]) if c["in"]][:45]
    lines = [dec(c["line"]) for c in good]
    lines = lines + lines[:10] + [l.replace("\t100\t", "\t101\t") for l in lines[:10]]
    # printed lines that END in white space and differ from each other only there: an attribute-less line (ends with a tab), the same with an
    # empty tenth column, and with a tenth column holding one blank
    bare = "chr1\tsrc\tgene\t5\t9\t.\t+\t.\t"
    lines += [bare, bare + "\t", bare + "\t ", bare, "chr1\tsrc\tgene\t5\t9\t.\t+\t.\tID=x\t", "chr1\tsrc\tgene\t5\t9\t.\t+\t.\tID=x"]
    # keep_order is off: a Feature prints its attributes in its own order, so reordered content prints differently
    feats = [feature_from_line(l) for l in lines]
    for i, f in enumerate(feats):
        if str(f) != lines[i]:
            ctx.violation({"line": lines[i]}, "harness:line_not_reproduced", {"printed": str(f)})
    for i, f in enumerate(feats):
        for j, g in enumerate(feats):
            same = lines[i] == lines[j]
            if (f == g) != same or (f != g) == same:
                ctx.violation({"line1": lines[i], "line2": lines[j]}, "equality", None)
            if same and hash(f) != hash(g):
                ctx.violation({"line1": lines[i], "line2": lines[j]}, "hash", None)
    # features that come out of a DATABASE under different keys but print the same line are equal and hash alike
    bad = twin_clause()
    if bad:
        ctx.violation({"line1": TWIN, "line2": TWIN, "from_database": True}, bad, None)
    # the same for objects with a HISTORY: hashed / compared / put in a set first, edited afterwards (a column, an attribute value, a new key),
    # then compared with a fresh parse of what they print now
    for i, l in enumerate(lines):
        bad = edited_object_clause(l, i)
        if bad:
            ctx.violation({"line_edit": l, "variant": i % 3}, bad, None)
    ctx.count(("eq", len(feats)), True, n=len(feats) ** 2 + len(lines))
    ctx.assumptions += ["NaN-like and non-finite numeric strings are outside the numeric_sort domain",
                        "equality pairs use lines inside the C07 grammar, where printing reproduces the line"]


TWIN = "chr1\tsrc\texon\t5\t9\t.\t+\t.\tParent=t1"


def twin_clause():
    import gffutils
    from .. import dbio
    with dbio.quiet():
        tdb = gffutils.create_db(TWIN + "\n" + TWIN + "\n", ":memory:", from_string=True, merge_strategy="create_unique")
    tf = list(tdb.all_features())
    if len(tf) == 2 and str(tf[0]) == str(tf[1]) and tf[0].id != tf[1].id:
        if not (tf[0] == tf[1]) or tf[0] != tf[1]:
            return "equality"
        if hash(tf[0]) != hash(tf[1]):
            return "hash"
    return None


def edited_object_clause(line, variant):
    from gffutils.feature import feature_from_line
    f = feature_from_line(line)
    before = feature_from_line(line)
    h0 = hash(f)
    bag = {f: 1}
    if f != before or hash(before) != h0 or before not in bag:
        return "hash"
    if variant % 3 == 0:
        f.start = (f.start or 0) + 1
    elif variant % 3 == 1:
        f.attributes["zz"] = ["edited"]
    else:
        f.source = "edited_source"
    g = feature_from_line(str(f))
    if str(g) != str(f):
        return None                 # the edited object does not print a line of the grammar: not an equality question
    if f != g or not (f == g):
        return "equality_after_edit"
    if hash(f) != hash(g):
        return "hash_after_edit"
    if f == before:
        return "equality_after_edit"      # the edit changed the printed line
    return None


def replay(ctx, rec):
    c = rec["case"]
    if "line_edit" in c:
        return edited_object_clause(c["line_edit"], c["variant"]) is not None
    if c.get("from_database"):
        return twin_clause() is not None
    if "line1" in c:
        from gffutils.feature import feature_from_line
        f, g = feature_from_line(c["line1"]), feature_from_line(c["line2"])
        same = c["line1"] == c["line2"]
        return (f == g) != same or (f != g) == same or (same and hash(f) != hash(g))
    if "raw" in c and isinstance(c["raw"], list):
        fails = run_ops((c["raw"], c.get("feature", "parsed")))
        real = [f for f in fails if f[1] != "known:" + LEAK or LEAK not in core.known_names("C17")]
        if fails and not real:
            print("KNOWN-FINDING: property=C17 %s" % LEAK)
        return bool(real)
    if "raw" in c and "a1" in c["raw"]:
        num, _ = random_pairs(ctx.rng, 0)
        p = ctx.path("pairs.json")
        with open(p, "w") as f:
            json.dump({"num": num, "pairs": [c["raw"]]}, f)
        gm = ctx.tlc("Gen_Merge", GENM_CFG, env={"SEED_FILE": p}, workers=1)
        n0 = len(ctx.violations)
        check_merge(ctx, c["raw"]["a1"], c["raw"]["a2"], c["raw"]["numeric"], gm.json[0]["exp"])
        return len(ctx.violations) > n0
    raise core.CannotReplay("the case could not be reconstructed from the model")
