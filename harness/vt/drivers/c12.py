"""C12 - genomic binning.  Spec: Bins.tla / BinsX.tla; MC_Bins, MC_BinsIdx (TLC), ApaBins (Apalache);
judge Trace_Bins."""
import io
import json
import os
import sys
import contextlib

from .. import core

MAXC = 2 ** 29
SIZES = [2 ** (17 + 3 * k) for k in range(5)]

MC_CFG = """CONSTANT Full = %s
INIT Init
NEXT Next
CHECK_DEADLOCK FALSE
INVARIANT InvOne
INVARIANT InvNoFall
INVARIANT InvComplete
INVARIANT InvNear
INVARIANT InvOut
INVARIANT InvSelf
"""
IDX_CFG = "INIT Init\nNEXT Next\nCHECK_DEADLOCK FALSE\nINVARIANT InvIdx\n"
TRACE_CFG = "INIT Init\nNEXT Next\nCHECK_DEADLOCK FALSE\n"

APA_TRUE = ["OneGff", "OneBed", "NoFallGff", "NoFallBed", "CompleteGff", "CompleteBed", "NearGff", "NearBed",
            "OutGff", "OutBed", "Index"]
APA_FALSE = ["WrongTight", "WrongNear"]


def runs_of(xs):
    """maximal runs of consecutive integers (pure change of representation)"""
    out = []
    for x in sorted(xs):
        if out and out[-1][1] + 1 == x:
            out[-1][1] = x
        else:
            out.append([x, x])
    return out


def observe(case):
    from gffutils import bins, feature
    s, e, fmt = case["s"], case["e"], case["fmt"]
    r = bins.bins(s, e, fmt=fmt, one=True)
    isint = isinstance(r, int) and not isinstance(r, bool)
    st = bins.bins(s, e, fmt=fmt, one=False)
    ok_set = isinstance(st, (set, frozenset)) and all(isinstance(x, int) for x in st)
    o = dict(case)
    o.update(isint=isint, one=r if isint else -1, runs=runs_of(st) if ok_set else [[-1, -1]],
             hasf=False, fbin=-1, hasdb=False, dbbin=-1)
    if fmt == "gff":
        f = feature.Feature(seqid="c", start=s, end=e)
        fb = f.bin
        fb2 = f.astuple()[-1]
        o["hasf"] = True
        o["fbin"] = fb if (isinstance(fb, int) and fb == fb2) else -2
    return o


def stored_bins(cases):
    """import the (s, e) pairs as one GFF3 file and read the bin column back with plain SQL"""
    import gffutils
    lines = []
    for i, c in enumerate(cases):
        lines.append("chr1\t.\tgene\t%d\t%d\t.\t+\t.\tID=f%d" % (c["s"], c["e"], i))
    with contextlib.redirect_stderr(io.StringIO()):
        db = gffutils.create_db("\n".join(lines) + "\n", ":memory:", from_string=True)
    rows = dict(db.conn.execute("SELECT id, bin FROM features").fetchall())
    for i, c in enumerate(cases):
        b = rows.get("f%d" % i)
        c["hasdb"] = True
        c["dbbin"] = b if isinstance(b, int) else -2
    return cases


def stored_bins_after_transform(cases, shift):
    """import with a transform that moves every feature by `shift`: the stored bin must be the bin of the STORED coordinates"""
    import gffutils
    lines = []
    for i, c in enumerate(cases):
        lines.append("chr1\t.\tgene\t%d\t%d\t.\t+\t.\tID=f%d" % (c["s"], c["e"], i))

    def move(f):
        f.start += shift
        f.end += shift
        return f
    with contextlib.redirect_stderr(io.StringIO()):
        db = gffutils.create_db("\n".join(lines) + "\n", ":memory:", from_string=True, transform=move)
    out = []
    for rid, s0, e0, b in db.conn.execute("SELECT id, start, end, bin FROM features"):
        rec = observe({"s": s0, "e": e0, "fmt": "gff"})
        rec["moved_by"] = shift
        rec["hasdb"] = True
        rec["dbbin"] = b if isinstance(b, int) else -2
        out.append(rec)
    return out


def synthesized_features():
    import gffutils
    from gffutils.feature import Feature
    with contextlib.redirect_stderr(io.StringIO()):
        db = gffutils.create_db("chr1\t.\tgene\t1\t2\t.\t+\t.\tID=seed\n", ":memory:", from_string=True)
    out = []
    for k in range(4):
        size = 2 ** (17 + 3 * k)
        for m in (1, 2, 7, 8):
            for d1 in (-2, -1, 0, 1):
                for d2 in (-1, 0, 1, 2):
                    e1 = m * size + d1
                    s2 = e1 + 3 + d2 + (size if d2 == 2 else 0)
                    if e1 < 30 or s2 <= e1 + 1 or s2 + 10 >= 2 ** 29:
                        continue
                    a = Feature(seqid="c", featuretype="exon", start=e1 - 20, end=e1, strand="+")
                    b = Feature(seqid="c", featuretype="exon", start=s2, end=s2 + 10, strand="+")
                    for g in db.interfeatures([a, b]):
                        rec = observe({"s": g.start, "e": g.end, "fmt": "gff"})
                        gb = g.bin
                        rec["hasf"] = True
                        rec["fbin"] = gb if isinstance(gb, int) and not isinstance(gb, bool) else -2       # the bin the YIELDED object carries
                        rec["synthesized"] = "interfeatures"
                        out.append(rec)
    return out


def nontrivial(c):
    s, e = c["s"], c["e"]
    if (s - 1) >> 17 != e >> 17:
        return True
    for x in (s, e):
        if abs(x) <= 2 or abs(x - MAXC) <= 2:
            return True
        for z in SIZES:
            if min(x % z, z - x % z) <= 2:
                return True
    return False


def judge(ctx, recs, label):
    """hand recorded calls to the trace specification; returns list of (index, clause)"""
    p = ctx.path("bins_%s.json" % label)
    with open(p, "w") as f:
        json.dump(recs, f)
    run = ctx.tlc("Trace_Bins", TRACE_CFG, env={"TRACE_FILE": p}, label="judge " + label)
    if run.distinct != 2 * len(recs):
        raise core.MachineryError("judge visited %d states for %d cases" % (run.distinct, len(recs)))
    ctx.traces += len(recs)
    return [(j["reject"] - 1, j["clause"]) for j in run.json if "reject" in j]


def random_cases(rng, n):
    out = []
    for _ in range(n):
        mode = rng.random()
        if mode < 0.4:
            z = rng.choice(SIZES)
            s = rng.randrange(0, MAXC // z + 1) * z + rng.randint(-3, 3)
            e = rng.randrange(0, MAXC // z + 1) * z + rng.randint(-3, 3)
            if rng.random() < 0.8 and s > e:
                s, e = e, s
        elif mode < 0.8:
            s = rng.randrange(1, MAXC)
            e = min(2 ** 31 - 2, s + int(rng.expovariate(1 / 50000.0)))
        else:
            s = rng.randrange(-5, 2 ** 31 - 2)
            e = rng.randrange(-5, 2 ** 31 - 2)
        out.append({"s": s, "e": e, "fmt": rng.choice(["gff", "gff", "bed"])})
    return out


def report(ctx, recs, rejects):
    for idx, clause in rejects:
        c = recs[idx]
        if clause == "drift":       # allowed by the statement, different from the transcription of bins.py: a note, never a verdict
            ctx.extra["alg_drift"] = ctx.extra.get("alg_drift", 0) + 1
            continue
        ctx.violation({"s": c["s"], "e": c["e"], "fmt": c["fmt"], "moved_by": c.get("moved_by", 0), "synthesized": c.get("synthesized") or ""}, clause,
                      {"observed": {k: c[k] for k in ("isint", "one", "runs", "fbin", "dbbin")}})


def run(ctx):
    thorough = ctx.tier == "thorough"
    ctx.rule = ("D1: every pair of coordinates within +-2 of a multiple of each of the five bin sizes (multiples 0,1,2,7,8,9,last-1,last), "
                "of 0 and of 2**29, both conventions, enumerated by TLC (MC_Bins) and executed through bins.bins(one=True/False), "
                "Feature.bin and the stored bin column; D2: seeded random pairs judged by Trace_Bins. Non-trivial: start and end in "
                "different finest bins, or a coordinate within 2 of a bin boundary, 0 or 2**29; distinct by (start,end,fmt).")
    # 1. model checking: algorithmic layer against the declarative layer on boundary coordinates
    mc = ctx.tlc("MC_Bins", MC_CFG % "FALSE", coverage=False, expect="inv", label="boundary pairs")
    if not mc.ok:
        ctx.violation({"tlc": "MC_Bins"}, "model:" + str(mc.violated), {"log": ctx.keep_log("MC_Bins", mc.out)})
        return
    idx = ctx.tlc("MC_BinsIdx", IDX_CFG, expect="inv", label="index lemma, 4 coordinates")
    if not idx.ok:
        ctx.violation({"tlc": "MC_BinsIdx"}, "model:" + str(idx.violated), {"log": ctx.keep_log("MC_BinsIdx", idx.out)})
        return
    if thorough:
        full = ctx.tlc("MC_Bins", MC_CFG % "TRUE", expect="inv", label="all bin ids x small coordinate set")
        if not full.ok:
            ctx.violation({"tlc": "MC_Bins full"}, "model:" + str(full.violated), {})
            return
    # 2. Apalache: the same lemmas for all coordinates
    import concurrent.futures as cf
    invs = (APA_TRUE + APA_FALSE) if thorough else ["OneGff", "NoFallGff", "CompleteGff", "NearGff", "Index", "WrongTight"]
    with cf.ThreadPoolExecutor(8) as ex:
        res = list(ex.map(lambda i: ctx.apalache("ApaBins", i, timeout=300), invs))
    ctx.extra["apalache"] = res
    ctx.extra["obligations_apalache"] = len(res)
    for r in res:
        want = "Error" if r["inv"] in APA_FALSE else "NoError"
        if r["result"] in ("timeout", "failed"):
            ctx.assumptions.append("Apalache lemma %s did not finish (%s); TLC boundary enumeration stands alone for it" % (r["inv"], r["result"]))
        elif r["result"] != want:
            ctx.violation({"apalache": r["inv"]}, "lemma:" + r["inv"], r)
    # 3. D1: execute every enumerated case on the code, judge with the trace specification
    cases = [{"s": j["s"], "e": j["e"], "fmt": j["fmt"]} for j in mc.json]
    exp = {(j["s"], j["e"], j["fmt"]): j for j in mc.json}
    if len(cases) != mc.distinct - len(set(c["s"] for c in cases)) and len(cases) * 2 < mc.distinct:
        raise core.MachineryError("lost PrintT lines: %d cases for %d states" % (len(cases), mc.distinct))
    recs = [observe(c) for c in cases]
    db_sample = [r for r in recs if r["fmt"] == "gff" and 1 <= r["s"] <= r["e"]]
    if not thorough:
        db_sample = ctx.rng.sample(db_sample, min(1500, len(db_sample)))
    stored_bins(db_sample)
    moved = stored_bins_after_transform([r for r in db_sample if r["e"] + 131073 < 2 ** 31 - 2][:1200], 131073)
    report(ctx, moved, judge(ctx, moved, "moved"))
    rej = judge(ctx, recs, "d1")
    # cross-check of the machinery: the judge and the generator must agree about `one`
    rejset = set(i for i, _ in rej)
    for i, r in enumerate(recs):
        e_one = exp[(r["s"], r["e"], r["fmt"])]["one"]
        if (i not in rejset) and not (r["isint"] and r["one"] == e_one) and r["runs"] != [[-1, -1]]:
            raise core.MachineryError("generator and judge disagree on %r" % r)
    report(ctx, recs, rej)
    for r in recs:
        ctx.count((r["s"], r["e"], r["fmt"]), nontrivial(r))
    ctx.sample({"case": cases[len(cases) // 3], "expected": exp[(cases[len(cases) // 3]["s"], cases[len(cases) // 3]["e"], cases[len(cases) // 3]["fmt"])]})
    ctx.exhaustive = True
    # 3b. "a Feature's bin always equals bins(start, end)" - also for the Features the library builds itself: the gaps yielded by interfeatures()
    #     between neighbours that end / start on and around bin-size multiples
    synth = synthesized_features()
    report(ctx, synth, judge(ctx, synth, "synthesized"))
    ctx.extra["synthesized_features"] = len(synth)
    # 4. D2: random pairs beyond the enumerated set
    n = 200000 if thorough else 20000
    rc = random_cases(ctx.rng, n)
    rrecs = [observe(c) for c in rc]
    sub = [r for r in rrecs if r["fmt"] == "gff" and 1 <= r["s"] <= r["e"]][: (20000 if thorough else 2000)]
    stored_bins(sub)
    for k in range(0, len(rrecs), 50000):
        part = rrecs[k:k + 50000]
        report(ctx, part, judge(ctx, part, "d2_%d" % k))
    for r in rrecs:
        ctx.count((r["s"], r["e"], r["fmt"]), nontrivial(r))
    ctx.sample({"random_case": rc[0], "observed": {k: rrecs[0][k] for k in ("one", "runs", "fbin")}})
    ctx.assumptions += ["TLC integers are 32-bit: coordinates are < 2**31",
                        "Apalache/SMT soundness for the all-coordinates lemmas",
                        "Trace_Bins expands nothing: returned sets are compared as maximal runs of consecutive ids"]


def replay(ctx, rec):
    c = rec["case"]
    if c.get("synthesized"):
        return any(cl != "drift" for _, cl in judge(ctx, synthesized_features(), "replay_synth"))
    if "s" not in c:
        raise core.CannotReplay("no executable case in this replay file")
    if c.get("moved_by"):
        o = stored_bins_after_transform([{"s": c["s"] - c["moved_by"], "e": c["e"] - c["moved_by"]}], c["moved_by"])
        return any(cl != "drift" for _, cl in judge(ctx, o, "replay"))
    o = observe({"s": c["s"], "e": c["e"], "fmt": c["fmt"]})
    if o["fmt"] == "gff" and 1 <= o["s"] <= o["e"]:
        stored_bins([o])
    return any(cl != "drift" for _, cl in judge(ctx, [o], "replay"))
