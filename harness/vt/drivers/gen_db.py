"""Shared: run recorded inputs through the database model (Gen_DB.tla) and compare with the real database, step by step."""
import copy
import json
import os

from .. import core
from ..core import enc, dec
from .. import dbio

GEN_CFG = "CONSTANT WordNA = {}\nCONSTANT Deviations = {%s}\nINIT Init\nNEXT Next\nCHECK_DEADLOCK FALSE\n"

ID_ITEM = {"t": "attr", "k": enc("ID")}
DEFAULT_CFG = {"idspec": {"kind": "list", "items": [ID_ITEM]}, "strategy": "error", "fmf": [], "importer": "gff3",
               "tkey": enc("transcript_id"), "gkey": enc("gene_id"), "sub": enc("exon"), "noT": False, "noG": False}


def feat(ftype, start, end, attrs, seqid="chr1", source="s", strand="+", score=".", frame=".", extra=()):
    return {"seqid": enc(seqid), "source": enc(source), "ftype": enc(ftype), "start": start, "end": end, "score": enc(score),
            "strand": enc(strand), "frame": enc(frame), "attrs": [[enc(k), [enc(v) for v in vs]] for k, vs in attrs],
            "extra": [enc(x) for x in extra]}


def gff3_line(f):
    """plain GFF3 text of a structured feature in the default dialect (ASCII, no characters that need escaping)"""
    cols = [dec(f["seqid"]), dec(f["source"]), dec(f["ftype"]), "." if f["start"] < 0 else str(f["start"]),
            "." if f["end"] < 0 else str(f["end"]), dec(f["score"]), dec(f["strand"]), dec(f["frame"])]
    a = ";".join(dec(k) + ("=" + ",".join(dec(v) for v in vs) if vs else "") for k, vs in f["attrs"])
    return "\t".join(cols + [a] + [dec(x) for x in f["extra"]])


def gtf_line(f):
    cols = [dec(f["seqid"]), dec(f["source"]), dec(f["ftype"]), "." if f["start"] < 0 else str(f["start"]),
            "." if f["end"] < 0 else str(f["end"]), dec(f["score"]), dec(f["strand"]), dec(f["frame"])]
    a = " ".join('%s "%s";' % (dec(k), ",".join(dec(v) for v in vs)) for k, vs in f["attrs"])
    return "\t".join(cols + [a])


def model(ctx, hist, deviations=(), label="model trajectories", workers=16):
    p = ctx.path("hist_%d.json" % len(ctx.tlc_runs))
    with open(p, "w") as f:
        json.dump({"hist": hist}, f)
    cfg = GEN_CFG % ", ".join('"%s"' % d for d in deviations)
    run = ctx.tlc("Gen_DB", cfg, env={"SEED_FILE": p}, label=label, workers=workers)
    out = {j["k"]: j for j in run.json}
    if len(out) != len(hist):
        raise core.MachineryError("model printed %d trajectories for %d histories" % (len(out), len(hist)))
    return [out[k + 1] for k in range(len(hist))]


DERIVED = enc("gffutils_derived")


def canon_snap(db):
    """representation only: relation/counter/duplicate sets as sorted lists, attribute keys and values sorted"""
    return {"feats": [dbio.canon_feature(f) for f in db["feats"]],
            "rels": sorted([list(r) for r in db["rels"]]), "ctr": sorted([list(r) for r in db["ctr"]]),
            "dups": sorted([list(r) for r in db["dups"]]), "dirs": db["dirs"], "nmeta": db["nmeta"], "dialect": db.get("dialect")}


def diff_clause(exp, got):
    for k in ("feats", "rels", "ctr", "dups", "dirs", "nmeta"):
        if k == "nmeta":
            # HOW MANY rows the meta table holds is bookkeeping no statement mentions (update() appends one, other code might keep one);
            # what matters is that the database still has its version/dialect row at all (and is readable: -1)
            if (exp[k] >= 1) != (got[k] >= 1):
                return "meta_rows"
            continue
        if k == "dups":
            # the duplicates table is the importer's private bookkeeping for later collisions; no statement speaks of its rows. What it is
            # FOR is observable - and compared - as the keys / merged content of later arrivals (>= 3 arrivals per key in MC_DB05 and in the random histories)
            continue
        if exp[k] != got[k]:
            if k == "feats":
                # keys: the same set, no key twice; ORDER is fixed for the features that come from input lines (they are stored in input order);
                # where the importer inserts the features it DERIVES (GTF transcripts / genes) among them is not part of any statement
                if sorted(f["id"] for f in exp[k]) != sorted(f["id"] for f in got[k]):
                    return "feature_keys"
                derived = set(json.dumps(f["id"]) for f in exp[k] if f["source"] == DERIVED)
                if [f["id"] for f in exp[k] if json.dumps(f["id"]) not in derived] != [f["id"] for f in got[k] if json.dumps(f["id"]) not in derived]:
                    return "feature_keys"
                by = {json.dumps(f["id"]): f for f in got[k]}
                for a in exp[k]:
                    b = by[json.dumps(a["id"])]
                    if a != b:
                        for fld in a:
                            if a[fld] != b[fld]:
                                # of a derived feature the statements fix id, type, seqid, strand and extent; its source / score / frame / attributes are the importer's own
                                if json.dumps(a["id"]) in derived and fld in ("source", "score", "frame", "attrs", "extra"):
                                    continue
                                return "feature_" + fld
                continue
            return {"rels": "relations", "ctr": "counters", "dups": "duplicates", "dirs": "directives", "nmeta": "meta_rows"}[k]
    return None


# ------------------------------------------------------------------ C02 D2
def random_forests(ctx, n):
    rng = ctx.rng
    hist = []
    for _ in range(n):
        nf = rng.randint(5, 60 if ctx.tier == "thorough" else 30)
        ids = ["n%d" % i for i in range(nf)]
        feats = []
        for i in range(nf):
            cands = ids[:i]
            k = rng.choice([0, 1, 1, 1, 2, 3]) if cands else 0
            ps = rng.sample(cands, min(k, len(cands)))
            if rng.random() < 0.1:
                ps.append("ghost%d" % rng.randint(0, 3))
            attrs = [("ID", [ids[i]])] + ([("Parent", ps)] if ps else [])
            feats.append(feat(rng.choice(["gene", "mRNA", "exon", "CDS"]), rng.randint(1, 500), rng.randint(500, 900), attrs))
        rng.shuffle(feats)
        hist.append({"init": {"feats": feats, "cfg": DEFAULT_CFG, "dirs": []}, "steps": [], "rel": True})
    exp = model(ctx, hist, label="random forests")
    for h, e in zip(hist, exp):
        text = "\n".join(gff3_line(f) for f in h["init"]["feats"]) + "\n"
        case = {"lines": text.splitlines()}
        db = dbio.create(text)
        got = canon_snap(dbio.proj_db(db.conn))
        want = canon_snap(e["traj"][0]["db"])
        bad = diff_clause(want, got)
        if not e["rel"]["decl"]:
            bad = bad or "model:rels_decl"
        if not bad:
            for name, meth in (("kids", db.children), ("pars", db.parents)):
                for q in e["rel"][name]:
                    g = dbio.ids_of(meth(dec(q["x"]), level=None if q["l"] == 0 else q["l"]))
                    if sorted(g) != sorted(q["ids"]) or len(set(map(json.dumps, g))) != len(g):
                        bad = "children" if name == "kids" else "parents"
                        break
                if bad:
                    break
        if bad:
            ctx.violation(case, "forest:" + bad, None)
        ctx.count(case, True)
    ctx.traces += len(hist)
    ctx.sample({"random_forest_file": text.splitlines()[:6], "n_features": len(h["init"]["feats"])})


def replay_lines(ctx, rec):
    """re-import the lines of a replay file and compare with the model again"""
    from gffutils.feature import feature_from_line
    lines = rec["case"].get("lines")
    if not lines:
        return True
    feats = []
    for l in lines:
        f = feature_from_line(l)
        feats.append(feat(f.featuretype, f.start if f.start is not None else -1, f.end if f.end is not None else -1,
                          [(k, list(v)) for k, v in f.attributes.items()], seqid=f.seqid, source=f.source, strand=f.strand,
                          score=f.score, frame=f.frame, extra=f.extra))
    hist = [{"init": {"feats": feats, "cfg": rec["case"].get("cfg", DEFAULT_CFG), "dirs": []}, "steps": [], "rel": True}]
    e = model(ctx, hist, workers=1)[0]
    db = dbio.create("\n".join(lines) + "\n")
    got = canon_snap(dbio.proj_db(db.conn))
    if diff_clause(canon_snap(e["traj"][0]["db"]), got):
        return True
    for name, meth in (("kids", db.children), ("pars", db.parents)):
        for q in e["rel"][name]:
            g = dbio.ids_of(meth(dec(q["x"]), level=None if q["l"] == 0 else q["l"]))
            if sorted(g) != sorted(q["ids"]) or len(set(map(json.dumps, g))) != len(g):
                return True
    # an update with one unrelated feature must leave the relations as the model says
    extra = feat("gene", 1, 9, [("ID", ["u"])])
    hist[0]["steps"] = [{"op": "update", "feats": [extra], "cfg": rec["case"].get("cfg", DEFAULT_CFG)}]
    e2 = model(ctx, hist, workers=1)[0]
    with dbio.quiet():
        db.update([real_feature(extra)], make_backup=False)
    if sorted([list(r) for r in dbio.rel_rows(db.conn)]) != sorted([list(r) for r in e2["traj"][-1]["db"]["rels"]]):
        return True
    return False


# ------------------------------------------------------------------ structured features -> real objects / arguments
def real_feature(f):
    import collections
    from gffutils.feature import Feature
    attrs = collections.OrderedDict((dec(k), [dec(v) for v in vs]) for k, vs in f["attrs"])
    return Feature(seqid=dec(f["seqid"]), source=dec(f["source"]), featuretype=dec(f["ftype"]),
                   start="." if f["start"] < 0 else f["start"], end="." if f["end"] < 0 else f["end"], score=dec(f["score"]),
                   strand=dec(f["strand"]), frame=dec(f["frame"]), attributes=dict(attrs), extra=[dec(x) for x in f["extra"]])


def _call(fn):
    if fn == "none":
        return lambda f: None
    if fn == "const":
        return lambda f: "K"
    if fn == "auto_seqid":
        return lambda f: "autoincrement:" + f.seqid
    if fn == "auto_colon":
        return lambda f: "autoincrement:%s:%s" % (f.seqid, f.featuretype)
    if fn == "name":
        return lambda f: f.attributes["Name"][0] if "Name" in f.attributes and f.attributes["Name"] else None
    if fn == "type_start":
        return lambda f: "%s:%s" % (f.featuretype, f.start)
    raise ValueError(fn)


def _item(it):
    if it["t"] == "attr":
        return dec(it["k"])
    if it["t"] == "field":
        return ":%s:" % it["name"]
    return _call(it["fn"])


def real_idspec(spec):
    """the id_spec argument denoted by the specification's record (string / list / dict / callable forms)"""
    if spec["kind"] == "default":
        return None                                  # let the importer choose its own default
    seq = tuple if spec.get("seqform") == "tuple" else list      # the argument FORM is part of the case: sequences as lists or as tuples
    if spec["kind"] == "dict":
        return {dec(ft): (seq(_item(i) for i in items) if len(items) != 1 or items[0]["t"] != "attr" or spec.get("seqform") == "tuple" else _item(items[0]))
                for ft, items in spec["map"]}
    items = seq(_item(i) for i in spec["items"])
    if len(items) == 1 and spec.get("seqform") != "tuple":
        return items[0]          # string, ':field:' or callable form
    return items


def real_kwargs(cfg, importer_kwargs=True):
    kw = {"merge_strategy": cfg["strategy"]}
    if real_idspec(cfg["idspec"]) is not None:
        kw["id_spec"] = real_idspec(cfg["idspec"])
    if cfg["fmf"]:
        kw["force_merge_fields"] = list(cfg["fmf"])
    if cfg.get("noT"):
        kw["disable_infer_transcripts"] = True
    if cfg.get("noG"):
        kw["disable_infer_genes"] = True
    return kw
