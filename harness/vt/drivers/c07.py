"""C07 - parse/print round trip in every consistent dialect.  Spec: AttrSyntax / AttrGrammar;
MC_RoundTrip (TLC), Gen_Attr (seeded generator), Trace_Attr (judge for data-file lines)."""
import glob
import json
import os

from .. import core
from ..core import enc, dec
from .. import attrs as A

MC_CFG = """CONSTANT Explore = FALSE
CONSTANT WordNA = {}
INIT Init
NEXT Next
CHECK_DEADLOCK FALSE
INVARIANT InvRoundTrip
INVARIANT InvDialect
INVARIANT InvLine
INVARIANT InvLoose
INVARIANT InvF13
"""
GEN_CFG = "CONSTANT WordNA <- WordNAFromFile\nINIT Init\nNEXT Next\nCHECK_DEADLOCK FALSE\n"
F13 = "Dev_FirstPartDecidesStyle"


def check_case(ctx, c, stats):
    """execute one generated case on the code; compare JSON for equality with what the spec printed"""
    o, f = A.obs_line(c["line"])
    case = {"n": c["n"], "a": c["a"], "d": c["d"], "line_text": dec(c["line"])}
    fails = []
    if o.get("raised"):
        fails.append("raised:" + o["raised"])
    else:
        if c["in"] or c["f13"]:
            if o["attrs"] != c["a"]:
                fails.append("attributes")
            if o["cols"] != c["cols"] or o["extra"] != c["extra"]:
                fails.append("columns")
            if o["printed"] != c["line"]:
                fails.append("printed")
            if c["in"] and c["a"] and o["d"] != c["obs"]:
                fails.append("dialect")
            if c["in"] and c["loose"] and not fails:
                from gffutils.feature import feature_from_line
                try:
                    f2 = feature_from_line(dec(c["loose"]), strict=False, keep_order=True)
                    if not (f2 == f) or A.proj_feature(f2)["attrs"] != o["attrs"]:
                        fails.append("loose")
                except Exception as e:  # noqa
                    fails.append("loose_raised:" + type(e).__name__)
        # conformance with the algorithmic layer, everywhere (drift only)
        if o["attrs"] != c["pattrs"] or o["d"] != c["pd"] or o["printed"] != c["pline"]:
            stats["drift"] += 1
            if stats["drift"] <= 3:
                stats["drift_examples"].append(case)
    if not fails:
        return
    if c["f13"] and not c["in"]:
        ctx.known_finding(F13, "key=value style is recognised on the first attribute only, so a line whose first attribute is a valueless flag (e.g. 'flag;ID=a') does not round-trip")
        stats["f13"] += 1
        return
    if c["in"]:
        ctx.violation(case, fails[0], {"all": fails, "observed": {k: o.get(k) for k in ("attrs", "d", "raised")},
                                       "observed_printed": dec(o["printed"]) if "printed" in o else None})


def random_seeds(rng, n):
    keys = ["ID", "Name", "Parent", "gene_id", "transcript_id", "Note", "Dbxref", "exon_number", "Alias", "k_1", "Ontology_term", "été", "名"]
    alphabet = list("abcXYZ019 _-.:/|()") + ["é", "ü", "中", "\U0001F600", "%", ";", ",", "=", "&", "\"", "\t", "'"]
    seeds = []
    for _ in range(n):
        nk = rng.choice([1, 1, 2, 2, 3, 4, 6])
        ks = rng.sample(keys, nk)
        a = []
        for k in ks:
            nv = rng.choice([0, 1, 1, 1, 2, 3])
            vs = []
            for _ in range(nv):
                ln = rng.choice([1, 1, 2, 3, 5, 9])
                if rng.random() < 0.12:       # a value that itself looks like key=value
                    vs.append(enc(rng.choice(["locus=12", "k=v", "ID=x", "a=b c", "x=", "n=1=2"])))
                else:
                    vs.append(enc("".join(rng.choice(alphabet) for _ in range(ln))))
            a.append([enc(k), vs])
        style = rng.choice([("=", False, "gff3"), (" ", True, "gtf"), (" ", False, "gff3"), ("=", True, "gff3")])
        d = {"lead": False, "trail": rng.random() < 0.5, "quoted": style[1], "fsep": enc(rng.choice([";", "; ", " ; "])),
             "kvsep": enc(style[0]), "mvsep": enc(","), "fmt": style[2], "rep": rng.random() < 0.4, "order": [k for k, _ in a]}
        seeds.append({"n": rng.randrange(18), "a": a, "d": d})
    return seeds


def nontrivial(c):
    d = c["d"]
    nondefault = d["trail"] or d["quoted"] or d["rep"] or dec(d["fsep"]) != ";" or dec(d["kvsep"]) != "="
    escaped = "%" in dec(c["t"])
    return len(c["a"]) >= 2 and (nondefault or escaped)


def data_lines(limit_per_file):
    out = []
    d = os.path.join(core.REPO, "gffutils", "test", "data")
    for p in sorted(glob.glob(os.path.join(d, "*"))):
        if not p.endswith((".gff", ".gff3", ".gtf", ".txt")) or "chromsizes" in p or "_ids" in p:
            continue
        try:
            with open(p, encoding="utf-8") as f:
                n = 0
                for line in f:
                    line = line.rstrip("\n\r")
                    if not line or line.startswith("#") or line.startswith(">"):
                        continue
                    cols = line.split("\t")
                    if len(cols) < 9:
                        continue
                    out.append((os.path.basename(p), cols[8]))
                    n += 1
                    if n >= limit_per_file:
                        break
        except UnicodeDecodeError:
            continue
    return out


def judge_infer(ctx, events, label):
    p = ctx.path("attr_%s.json" % label)
    with open(p, "w") as f:
        json.dump({"wordna": A.word_na([e["s"] for e in events]), "events": events}, f)
    cfg = "CONSTANT WordNA <- WordNAFromFile\nINIT Init\nNEXT Next\nCHECK_DEADLOCK FALSE\n"
    run = ctx.tlc("Trace_Attr", cfg, env={"TRACE_FILE": p}, label="judge " + label)
    ctx.traces += len(events)
    return [(j["reject"] - 1, j["clause"]) for j in run.json if "reject" in j]


def run(ctx):
    thorough = ctx.tier == "thorough"
    ctx.rule = ("D1: every (attributes, dialect) pair of MC_RoundTrip (1-2 keys of 3, 13 value shapes incl. escaped ; , = %, quotes, edge blanks, flags; "
                "3 separators x trailing ; x 4 key/value styles x comma-list/repeated keys), each rendered by the specification into a full line "
                "(4 column shapes incl. '.' coordinates, 3 extra-column shapes) and parsed/printed by the code; D2: seeded random mappings with real key "
                "names and Unicode values rendered by Gen_Attr; D3: attribute columns of the repository's data files judged by Trace_Attr. "
                "Non-trivial: >= 2 attributes and a non-default dialect dimension or an escaped character; distinct by (attributes, dialect, line shape).")
    stats = {"drift": 0, "drift_examples": [], "f13": 0, "in_grammar": 0}
    mc = ctx.tlc("MC_RoundTrip", MC_CFG, expect="inv", label="grammar x dialects: RoundTrip, InfersDialect, LineRoundTrip, LooseEqual, F13")
    if not mc.ok:
        ctx.violation({"tlc": "MC_RoundTrip"}, "model:" + str(mc.violated), {"log": ctx.keep_log("MC_RoundTrip", mc.out)})
        return
    cases = mc.json
    if len(cases) < mc.distinct // 2:
        raise core.MachineryError("lost PrintT lines")
    if not thorough:
        cases = ctx.rng.sample(cases, 9000)
    for c in cases:
        check_case(ctx, c, stats)
        ctx.count((c["n"], c["a"], c["d"]), nontrivial(c))
        stats["in_grammar"] += 1 if c["in"] else 0
    ctx.exhaustive = thorough
    ctx.sample({"line": dec(cases[7]["line"]), "in_grammar": cases[7]["in"], "expected_dialect": cases[7]["obs"]})
    # D2
    seeds = random_seeds(ctx.rng, 30000 if thorough else 3000)
    p = ctx.path("seeds.json")
    with open(p, "w") as f:
        json.dump({"wordna": A.word_na([k for s in seeds for k, _ in s["a"]]), "seeds": seeds}, f)
    gen = ctx.tlc("Gen_Attr", GEN_CFG, env={"SEED_FILE": p, "MODE": "rt"}, label="render + classify random mappings")
    if len(gen.json) != len(seeds):
        raise core.MachineryError("generator printed %d records for %d seeds" % (len(gen.json), len(seeds)))
    for c in gen.json:
        check_case(ctx, c, stats)
        ctx.count((c["n"], c["a"], c["d"]), nontrivial(c))
        stats["in_grammar"] += 1 if c["in"] else 0
    ctx.traces += len(gen.json) + len(cases)
    g = [c for c in gen.json if c["in"] and len(c["a"]) > 1]
    if g:
        ctx.sample({"random_line": dec(g[0]["line"]), "in_grammar": True})
    # D3
    lines = data_lines(3000 if thorough else 250)
    events = []
    for fn, s in lines:
        events.append(A.obs_infer(enc(s)))
    rej = judge_infer(ctx, events, "d3")
    for idx, clause in rej:
        if clause == "drift":
            stats["drift"] += 1
            continue
        ctx.violation({"file": lines[idx][0], "attr_text": lines[idx][1]}, "datafile:" + clause, {"observed": events[idx]})
    ctx.extra.update({"in_grammar_cases": stats["in_grammar"], "alg_drift": stats["drift"], "alg_drift_examples": stats["drift_examples"],
                      "known_f13_cases": stats["f13"], "data_file_lines": len(lines)})
    if stats["drift"]:
        print("NOTE property=C07 %d observations differ from the algorithmic layer outside the grammar (model drift, not a violation)" % stats["drift"])
    ctx.assumptions += ["coordinates are '.' or canonical decimals (int() parsing is not modelled)",
                        "keys are \\w+ (ASCII in the bounded model; Unicode word characters through the WordNA side table)",
                        "the loose (strict=False) clause is applied to nine-column lines whose attribute column has no white space at its edges"]


def replay(ctx, rec):
    c = rec["case"]
    if "a" not in c:
        raise core.CannotReplay("no executable case in this replay file")
    p = ctx.path("seeds.json")
    seeds = [{"n": c["n"], "a": c["a"], "d": c["d"]}]
    with open(p, "w") as f:
        json.dump({"wordna": A.word_na([k for s in seeds for k, _ in s["a"]]), "seeds": seeds}, f)
    gen = ctx.tlc("Gen_Attr", GEN_CFG, env={"SEED_FILE": p, "MODE": "rt"}, workers=1)
    stats = {"drift": 0, "drift_examples": [], "f13": 0}
    n0 = len(ctx.violations)
    check_case(ctx, gen.json[0], stats)
    return len(ctx.violations) > n0
