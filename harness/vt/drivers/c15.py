"""C15 - interfeatures, create_introns, create_splice_sites.  Spec: Intervals.tla (Inter_Alg/Inter_Decl, Introns_Decl, Splice_Decl); MC_Intervals; Gen_Intervals."""
import copy
import json

from .. import core
from ..core import enc, dec
from .. import dbio
from . import gen_db as G
from . import iv_common as I


def run_inter(db, case):
    cfg = case["cfg"]
    objs = [G.real_feature(f) for f in case["feats"]]
    for o, f in zip(objs, case["feats"]):
        o.id = dec(f["id"])
    before = [(str(o), copy.deepcopy(dict(o.attributes.items()))) for o in objs]
    tc = db.conn.total_changes
    kw = {"new_featuretype": dec(cfg["newtype"]) if cfg["newtype"] else ("" if cfg.get("typeGiven") else None), "merge_attributes": cfg["mergeAttrs"], "numeric_sort": cfg["numeric"]}
    if cfg["update"]:
        kw["update_attributes"] = {dec(k): [dec(v) for v in vs] for k, vs in cfg["update"]}
    try:
        got = [I.view(x) for x in db.interfeatures(objs, **kw)]
    except Exception as e:  # noqa
        return "raised:" + type(e).__name__, None
    exp = [I.canon_view({k: v for k, v in g.items()}) for g in case["exp"]]
    if got != exp:
        if len(got) != len(exp):
            return "gap_count", got
        for a, b in zip(got, exp):
            for fld in ("seqid", "start", "end", "strand", "ftype", "attrs"):
                if a[fld] != b[fld]:
                    return "gap_" + fld, got
    after = [(str(o), dict(o.attributes.items())) for o in objs]
    if before != after:
        return "inputs_changed", None
    if db.conn.total_changes != tc:
        return "database_changed", None
    return None, got


def run(ctx):
    thorough = ctx.tier == "thorough"
    ctx.rule = ("D1: every ordered list of <= %s intervals over positions 1..6 (thorough: 1..5) x 10 seqid/strand/type/attribute patterns x 6 option sets (MC_Intervals mode inter: Inter_Alg = Inter_Decl, "
                "N-1 law); one case in %d is replayed through FeatureDB.interfeatures (gap geometry, type, strand, per-key sorted attribute union, joined IDs, inputs and "
                "database unchanged); D2: random gene models (1-2 genes, 1-2 transcripts, 0-4 exons touching/overlapping/shuffled, either strand) through create_introns and "
                "create_splice_sites against Introns_Decl / Splice_Decl (Gen_Intervals). Non-trivial: >= 3 features, a touching/overlapping pair, a seqid change or mixed "
                "strands; distinct by the case.") % ("4" if thorough else "3", 13 if thorough else 7)
    import gffutils
    mc = ctx.tlc("MC_Intervals", I.MC_CFG % ((4, 5, "inter", 13) if thorough else (3, 6, "inter", 7)), expect="inv", label="interfeatures: alg = decl, N-1 law", timeout=2400)
    if not mc.ok:
        ctx.violation({"tlc": "MC_Intervals"}, "model:" + str(mc.violated), {"log": ctx.keep_log("MC_Intervals_inter", mc.out)})
        return
    with dbio.quiet():
        db = gffutils.create_db("chr1\t.\tgene\t1\t2\t.\t+\t.\tID=seed\n", ":memory:", from_string=True)
    cases = mc.json
    if len(cases) > (200000 if thorough else 30000):
        cases = ctx.rng.sample(cases, 200000 if thorough else 30000)
    for c in cases:
        bad, got = run_inter(db, c)
        if bad:
            ctx.violation({"feats": c["feats"], "cfg": c["cfg"], "lines": [G.gff3_line(f) for f in c["feats"]]}, bad, {"observed": got, "expected": c["exp"]})
        fs = c["feats"]
        nt = len(fs) >= 3 or any(a["seqid"] != b["seqid"] or a["strand"] != b["strand"] or a["end"] + 1 >= b["start"] for a, b in zip(fs, fs[1:]))
        ctx.count((fs, c["cfg"]), nt)
    ctx.traces += len(cases)
    ctx.extra["cases_model_checked"] = mc.distinct
    ctx.sample({"features": [G.gff3_line(f) for f in cases[-1]["feats"]], "options": cases[-1]["cfg"], "expected_gaps": cases[-1]["exp"]})
    # D2 introns / splice sites
    models = [I.random_model(ctx.rng) for _ in range(3000 if thorough else 800)]
    exp = I.oracle(ctx, models)
    for m, e in zip(models, exp):
        case = {"model": m, "lines": I.model_lines(m)}
        try:
            d = I.build(m)
            # the order in which transcripts are visited is not part of the statement: compare as multisets
            got = sorted([I.view(x) for x in d.create_introns(numeric_sort=m["numeric"], merge_attributes=m["mergeA"])], key=json.dumps)
            want = sorted([I.canon_view(v) for v in e["introns"]], key=json.dumps)
            if got != want:
                ctx.violation(case, "introns", {"observed": got, "expected": want})
            try:
                gs = sorted([I.view(x) for x in d.create_splice_sites(numeric_sort=m["numeric"])], key=json.dumps)
                ws = sorted([I.canon_view(v) for v in e["splice"]], key=json.dumps)
                if gs != ws:
                    ctx.violation(case, "splice_sites", {"observed": gs, "expected": ws})
            except Exception as ex:  # noqa
                ctx.violation(case, "splice_raised:" + type(ex).__name__, None)
        except Exception as ex:  # noqa
            ctx.violation(case, "raised:" + type(ex).__name__, {"message": str(ex)[:200]})
        ctx.count(I.model_lines(m), True)
    ctx.traces += len(models)
    ctx.assumptions += ["the id, source, score, frame and bin of yielded gap features are not part of the statement and are not compared",
                        "exons carry an ID attribute (create_splice_sites needs one)"]


def replay(ctx, rec):
    c = rec["case"]
    import gffutils
    if "cfg" in c:
        with dbio.quiet():
            db = gffutils.create_db("chr1\t.\tgene\t1\t2\t.\t+\t.\tID=seed\n", ":memory:", from_string=True)
        mc = ctx.tlc("MC_Intervals", I.MC_CFG % (max(2, len(c["feats"])), 6, "inter", 1), label="recompute expectation")
        for j in mc.json:
            if j["feats"] == c["feats"] and j["cfg"] == c["cfg"]:
                return run_inter(db, j)[0] is not None
        return True
    if "model" in c:
        m = c["model"]
        e = I.oracle(ctx, [m])[0]
        d = I.build(m)
        try:
            srt = lambda l: sorted(l, key=json.dumps)
            if srt([I.view(x) for x in d.create_introns(numeric_sort=m["numeric"], merge_attributes=m["mergeA"])]) != srt([I.canon_view(v) for v in e["introns"]]):
                return True
            return srt([I.view(x) for x in d.create_splice_sites(numeric_sort=m["numeric"])]) != srt([I.canon_view(v) for v in e["splice"]])
        except Exception:  # noqa
            return True
    raise core.CannotReplay("the case could not be reconstructed from the model")
