"""Shared by C04, C06 and C11: ONE long-lived FeatureDB handle driven through every history of MC_Handle (delete / add / move-and-replace / reopen),
the whole battery of its property asked after EVERY step (so that whatever a handle might remember is remembered before the next change), every answer
compared with Handle!Answers of the model state.  Spec: Handle.tla (composition of GffDB with the query semantics), MC_Handle.tla."""
import os

from .. import core
from ..core import enc, dec
from .. import dbio
from . import gen_db as G

MC_CFG = ("CONSTANT Depth = %d\nCONSTANT Remembers = %s\nCONSTANT Gen = FALSE\nCONSTANT WordNA = {}\nCONSTANT Deviations = {}\nSPECIFICATION Spec\nVIEW view\nCHECK_DEADLOCK FALSE\n"
          "INVARIANT Coherent\nINVARIANT LookupExact\nINVARIANT CountsAddUp\nINVARIANT MustInMay\n")
GEN_CFG = "CONSTANT Depth = %d\nCONSTANT Remembers = FALSE\nCONSTANT Gen = TRUE\nCONSTANT WordNA = {}\nCONSTANT Deviations = {}\nSPECIFICATION Spec\nCHECK_DEADLOCK FALSE\nCONSTRAINT Emit\n"


def model(ctx, depth):
    """model-check the composition, show that a remembering handle breaks Coherent, and return every behaviour of the given depth"""
    mc = ctx.tlc("MC_Handle", MC_CFG % (depth + 1, "FALSE"), expect="inv", label="handle histories: answers are functions of the current state")
    if not mc.ok:
        ctx.violation({"tlc": "MC_Handle"}, "model:" + str(mc.violated), {"log": ctx.keep_log("MC_Handle", mc.out)})
        return None
    dv = ctx.tlc("MC_Handle", MC_CFG % (2, "TRUE"), expect="inv", label="a handle that remembers answers must break Coherent")
    ctx.extra["remembering_handle_breaks"] = dv.violated
    if dv.violated != "Coherent":
        ctx.violation({"tlc": "MC_Handle Remembers"}, "model:remembering_handle_not_rejected", {"violated": dv.violated})
    gen = ctx.tlc("MC_Handle", GEN_CFG % depth, label="behaviours of one handle, depth %d" % depth)
    return [j for j in gen.json if "h" in j]


def _region_ids(db, q, via):
    seqid, s, e, w = dec(q["seqid"]), q["s"], q["e"], q["within"]
    if via == "region":
        it = db.region(seqid=seqid, start=s, end=e, completely_within=w)
    elif via == "region_tuple":
        it = db.region(region=(seqid, s, e), completely_within=w)
    elif via == "all_features":
        it = db.all_features(limit=(seqid, s, e), completely_within=w)
    else:
        it = db.all_features(limit="%s:%d-%d" % (seqid, s, e), completely_within=w)
    return [f.id for f in it]


def battery(db, ans, which):
    """returns the first failing clause of the battery `which` in the state whose statement-answers are `ans`, or None"""
    if which == "lookup":
        keys = [dec(l["key"]) for l in ans["lookup"]]
        got = dbio.lookups(db, keys + [k.upper() for k in keys])
        for l in ans["lookup"]:
            k = dec(l["key"])
            want = dbio.canon_feature(l["f"]) if l["found"] else "notfound"
            if got[k] != want:
                return ("lookup_of_absent_key_returns" if want == "notfound" else "lookup_of_stored_key_not_found" if got[k] == "notfound" else "lookup_not_the_stored_feature"), k
            if got[k.upper()] != "notfound":
                return "lookup_of_absent_key_returns", k.upper()
        return None
    if which == "region":
        for r in ans["regions"]:
            must = set(dec(i) for i in r["must"])
            may = set(dec(i) for i in r["may"])
            for via in ("region", "all_features", "region_tuple", "all_features_string"):
                ids = _region_ids(db, r["q"], via)
                if len(set(ids)) != len(ids):
                    return "dup", [via, r["q"], ids]
                if not must <= set(ids):
                    return "missing", [via, dict(r["q"], seqid=dec(r["q"]["seqid"])), sorted(must - set(ids))]
                if not set(ids) <= may:
                    return "extra", [via, dict(r["q"], seqid=dec(r["q"]["seqid"])), sorted(set(ids) - may)]
        return None
    # select: counts, distinct values, input order
    for c in ans["counts"]:
        t = dec(c["t"])
        n = db.count_features_of_type(t)
        if n != c["n"]:
            return "count", [t, n, c["n"]]
        if len(list(db.features_of_type(t))) != c["n"]:
            return "count_vs_iteration", [t, c["n"]]
    if db.count_features_of_type() != ans["total"]:
        return "count", [None, db.count_features_of_type(), ans["total"]]
    if sorted(db.featuretypes()) != sorted(dec(x) for x in ans["ftypes"]) or len(list(db.featuretypes())) != len(ans["ftypes"]):
        return "featuretypes", list(db.featuretypes())
    if sorted(db.seqids()) != sorted(dec(x) for x in ans["seqids"]) or len(list(db.seqids())) != len(ans["seqids"]):
        return "seqids", list(db.seqids())
    if [f.id for f in db.all_features()] != [dec(i) for i in ans["order"]]:
        return "wrong_set" if sorted(f.id for f in db.all_features()) != sorted(dec(i) for i in ans["order"]) else "order", [f.id for f in db.all_features()]
    return None


def run_behaviour(args):
    """args = (case, path, which); returns None or (step index, clause, detail)"""
    case, path, which = args
    import gffutils
    db = None
    try:
        with dbio.quiet():
            db = gffutils.create_db([G.real_feature(f) for f in case["init"]], path, force=True)
        for k, st in enumerate(case["h"]):
            op = st["op"]
            x = dec(st["x"]) if st["x"] else None
            with dbio.quiet():
                if op == "del":
                    db.delete(x if k % 2 == 0 else db[x], make_backup=False)
                elif op == "add":
                    db.update([G.real_feature(st["feat"][0])], make_backup=False, merge_strategy="error")
                elif op == "move":
                    if k % 2 == 0:       # the feature as the handle returns it, edited and written back
                        f = db[x]
                        by = st["feat"][0]["start"] - f.start
                        f.start += by
                        f.end += by
                    else:                # a freshly built Feature carrying the same key
                        f = G.real_feature(st["feat"][0])
                    db.update([f], make_backup=False, merge_strategy="replace")
                elif op == "reopen":
                    db.conn.close()
                    db = gffutils.FeatureDB(path)
            bad = battery(db, st["ans"], which)
            if bad:
                return (k, bad[0], bad[1])
        return None
    except Exception as e:  # noqa
        return (-1, "raised:" + type(e).__name__, str(e)[:200])
    finally:
        try:
            if db is not None:
                db.conn.close()
        except Exception:  # noqa
            pass
        if os.path.exists(path):
            os.unlink(path)


def describe(case):
    return [{"op": s["op"], "key": dec(s["x"]) if s["x"] else None, "to": [s["feat"][0]["start"], s["feat"][0]["end"]] if s["feat"] else None} for s in case["h"]]


def check(ctx, which, depth, limit):
    """the part of a driver's run(): model, behaviours, execution, violations; returns the number of behaviours executed"""
    cases = model(ctx, depth)
    if cases is None:
        return 0
    if len(cases) > limit:
        cases = ctx.rng.sample(cases, limit)
    res = core.pmap(run_behaviour, [(c, ctx.path("handle_%s_%d.db" % (which, k)), which) for k, c in enumerate(cases)])
    for c, r in zip(cases, res):
        if r:
            ctx.violation({"handle_history": describe(c), "raw_handle": c, "battery": which}, "handle_step%d:%s" % (r[0], r[1]), {"detail": r[2]})
        ctx.count(("handle", which, describe(c)), True)
    ctx.traces += len(cases)
    ctx.extra["handle_behaviours"] = len(cases)
    return len(cases)


def replay(ctx, rec, which):
    c = rec["case"].get("raw_handle")
    return c is not None and run_behaviour((c, ctx.path("handle_replay.db"), which)) is not None
