"""C01 - import fidelity.  Spec: ImportModel.tla (FileDialect, ParseLine, ImportText, PrintAll, Consistent) composing AttrSyntax/AttrGrammar/Dialect/GffDB;
MC_Import (TLC), Gen_Import (random consistent files, data files)."""
import glob
import json
import os
import warnings

from .. import core
from ..core import enc, dec
from .. import attrs as A
from .. import dbio
from . import gen_db as G

MC_CFG = ("CONSTANT MaxLines = %d\nCONSTANT PrintMod = %d\nCONSTANT WordNA = {}\nCONSTANT Deviations = {}\nINIT Init\nNEXT Next\nCHECK_DEADLOCK FALSE\n"
          "INVARIANT InvStoredOnce\nINVARIANT InvPrintIdentity\nINVARIANT InvReimport\n")
GEN_CFG = "CONSTANT WordNA <- WordNAFromFile\nCONSTANT Deviations = {}\nINIT Init\nNEXT Next\nCHECK_DEADLOCK FALSE\n"


def proj(f):
    """a Feature yielded by the database -> the specification's stored feature record"""
    return {"id": enc(f.id), "seqid": enc(f.seqid), "source": enc(f.source), "ftype": enc(f.featuretype),
            "start": -1 if f.start is None else f.start, "end": -1 if f.end is None else f.end, "score": enc(f.score), "strand": enc(f.strand),
            "frame": enc(f.frame), "attrs": A.proj_attrs(f.attributes), "extra": [enc(x) for x in f.extra]}


DERIVED_SRC = "gffutils_derived"


def lines_only(c):
    """C01 speaks of the features that come from input LINES: what a GTF import derives in addition (transcripts, genes) - where it stores them
    and which attributes it gives them - is C03's subject.  Returns the case with the derived features taken out of the expectation."""
    keep = [i for i, f in enumerate(c["feats"]) if dec(f["source"]) != DERIVED_SRC]
    if len(keep) == len(c["feats"]):
        return c
    d = dict(c)
    d["feats"] = [c["feats"][i] for i in keep]
    for fld in ("printed", "printedSorted"):
        if fld in c and len(c[fld]) == len(c["feats"]):
            d[fld] = [c[fld][i] for i in keep]
    return d


def observe_db(db, sort=False):
    feats = [f for f in db.all_features() if f.source != DERIVED_SRC]
    return {"feats": [proj(f) for f in feats], "printed": [enc(str(f)) for f in feats], "dialect": A.proj_dialect(db.dialect)}


def run_case(args):
    c, scratch, k, onfile = args
    c = lines_only(c)
    import gffutils
    fails = []
    path = os.path.join(scratch, "c01_%d_%d.gff" % (os.getpid(), k))
    dbfn = path + ".db"
    text = "\n".join(dec(l) for l in c["lines"]) + "\n"
    try:
        with open(path, "w", encoding="utf-8") as f:
            f.write(text)
        with dbio.quiet(), warnings.catch_warnings():
            warnings.simplefilter("ignore")
            try:
                db = gffutils.create_db(path, dbfn if onfile else ":memory:", checklines=c["cl"], merge_strategy="create_unique", keep_order=True, force=True)
            except Exception as e:  # noqa
                return [("raised:" + type(e).__name__, str(e)[:150])] if c["st"] == "ok" else []
            if c["st"] != "ok":
                return [("not_raised", None)]
            o = observe_db(db)
            if o["dialect"] != c["dialect"]:
                fails.append(("file_dialect", o["dialect"]))
            if [f["id"] for f in o["feats"]] != [f["id"] for f in c["feats"]]:
                fails.append(("stored_once_in_order", [dec(f["id"]) for f in o["feats"]]))
            elif o["feats"] != c["feats"]:
                for a, b in zip(o["feats"], c["feats"]):
                    if a != b:
                        fld = [x for x in a if a[x] != b[x]][0]
                        fails.append(("stored_" + fld, [dec(a["id"]), a[fld]]))
                        break
            if o["printed"] != c["printed"]:
                fails.append(("printed", [dec(x) for x in o["printed"]]))
            if c["consistent"] and o["printed"] != c["lines"]:
                fails.append(("print_identity", [dec(x) for x in o["printed"]]))
            # the same lines handed over as ONE-SHOT iterators of Features that are not generator objects: nothing is lost to the dialect peek
            if len(c["lines"]) >= 2 and k % 3 == 0:
                from gffutils.feature import feature_from_line
                for form in ("iter", "map"):
                    objs = [feature_from_line(dec(l), keep_order=True) for l in c["lines"]]
                    src = iter(objs) if form == "iter" else map(lambda x: x, objs)
                    try:
                        dbi = gffutils.create_db(src, ":memory:", checklines=c["cl"], merge_strategy="create_unique", keep_order=True)
                    except Exception as e:  # noqa
                        fails.append(("stored_once_oneshot_%s_raised:%s" % (form, type(e).__name__), None))
                        continue
                    got = [enc(str(f)) for f in dbi.all_features() if f.source != DERIVED_SRC]
                    if len(got) != len(o["printed"]):
                        fails.append(("stored_once_oneshot_" + form, [dec(x) for x in got]))
            # the same file reached through a file:// URL, gzipped, and WITHOUT a newline after its last line
            if k % 3 == 1:
                import gzip
                with gzip.open(path + ".u.gz", "wt", encoding="utf-8") as f:
                    f.write(text[:-1])
                try:
                    dbu = gffutils.create_db("file://" + path + ".u.gz", ":memory:", checklines=c["cl"], merge_strategy="create_unique", keep_order=True)
                    got = [enc(str(f)) for f in dbu.all_features() if f.source != DERIVED_SRC]
                    if got != o["printed"]:
                        fails.append(("stored_once_url_gz", [dec(x) for x in got]))
                except Exception as e:  # noqa
                    fails.append(("stored_once_url_gz_raised:" + type(e).__name__, None))
                finally:
                    os.unlink(path + ".u.gz")
            # sort_attribute_values
            db.sort_attribute_values = True
            ps = [enc(str(f)) for f in db.all_features() if f.source != DERIVED_SRC]
            db.sort_attribute_values = False
            if ps != c["printedSorted"]:
                fails.append(("printed_sorted_values", [dec(x) for x in ps]))
            if onfile:
                db.conn.close()
                db2 = gffutils.FeatureDB(dbfn, keep_order=True)
                o2 = observe_db(db2)
                db2.conn.close()
                if o2 != o:
                    fails.append(("reopened_differs", None))
            # re-import what was printed
            if c["consistent"]:
                text2 = "\n".join(dec(x) for x in o["printed"]) + "\n"
                with open(path, "w", encoding="utf-8") as f:
                    f.write(text2)
                db3 = gffutils.create_db(path, ":memory:", checklines=c["cl"], merge_strategy="create_unique", keep_order=True)
                o3 = observe_db(db3)
                if o3["feats"] != o["feats"] or o3["printed"] != o["printed"] or dbio.rel_rows(db3.conn) != dbio.rel_rows(gffutils.FeatureDB(dbfn).conn if onfile else db.conn):
                    fails.append(("reimport_not_equivalent", None))
    except Exception as e:  # noqa
        fails.append(("harness_raised:" + type(e).__name__, str(e)[:200]))
    finally:
        for p in (path, dbfn):
            if os.path.exists(p):
                os.unlink(p)
    return fails


def run_scaled(c, reps, path):
    """a consistent block repeated `reps` times (later copies get keys '<id>_n' under create_unique): thousands of lines, each stored exactly once,
    in input order, columns and attributes as the model says for the block, printed byte-identical, the same after close / reopen"""
    import gffutils
    c = lines_only(c)
    lines = [dec(l) for l in c["lines"]] * reps
    dbfn = path + ".db"
    try:
        with open(path, "w", encoding="utf-8") as f:
            f.write("\n".join(lines) + "\n")
        with dbio.quiet(), warnings.catch_warnings():
            warnings.simplefilter("ignore")
            db = gffutils.create_db(path, dbfn, checklines=c["cl"], merge_strategy="create_unique", keep_order=True, force=True)
            db.conn.close()
            db = gffutils.FeatureDB(dbfn, keep_order=True)
            feats = [f for f in db.all_features() if f.source != DERIVED_SRC]
        if len(feats) != len(lines):
            return "scaled:stored_once", {"stored": len(feats), "lines": len(lines)}
        block = c["feats"]
        for n, f in enumerate(feats):
            want = block[n % len(block)]
            got = proj(f)
            for fld in ("seqid", "source", "ftype", "start", "end", "score", "strand", "frame", "attrs", "extra"):
                if got[fld] != want[fld]:
                    return "scaled:stored_" + fld, {"line_number": n + 1, "line": lines[n], "observed": got[fld]}
            if str(f) != lines[n]:
                return "scaled:print_identity", {"line_number": n + 1, "line": lines[n], "printed": str(f)}
        if len(set(f.id for f in feats)) != len(feats):
            return "scaled:keys_unique", None
        db.conn.close()
        return None, None
    except Exception as e:  # noqa
        return "scaled:raised:" + type(e).__name__, {"message": str(e)[:200]}
    finally:
        for p in (path, dbfn):
            if os.path.exists(p):
                os.unlink(p)


def random_files(rng, n):
    """consistent-by-construction candidates: one dialect, keys in one global order, unique IDs, Unicode values; the spec decides Consistent"""
    keys = ["ID", "Name", "Parent", "Alias", "Note", "Dbxref", "score2", "été"]
    files = []
    for _ in range(n):
        style = rng.choice([("=", False, "gff3"), (" ", True, "gtf"), (" ", False, "gff3"), ("=", True, "gff3")])
        d = {"lead": False, "trail": rng.random() < 0.5, "quoted": style[1], "fsep": enc(rng.choice([";", "; ", " ; "])), "kvsep": enc(style[0]),
             "mvsep": enc(","), "fmt": style[2], "rep": rng.random() < 0.4, "order": []}
        gtf = style[2] == "gtf"
        alphabet = list("abcXYZ019_-.:/|()") + ["é", "中", "\U0001F600"] + ([] if gtf else ["%", ";", ",", "=", "&", "\t"])
        if not gtf:         # both ends of the control range that printing must escape again, DEL, and their unescaped neighbours (round 9: %1F printed raw)
            alphabet += ["\x00", "\x01", "\x1e", "\x1f", "\x7f", "\n", "\r", "\x0b", "~", "\x80"]     # (no blank: a value ending in a blank before "; " reads as " ; " when a line is parsed alone)
        nl = rng.choice([1, 2, 3, 5, 11, 12, 13, 30])
        kord = ["ID"] + rng.sample(keys[1:], len(keys) - 1)
        rows = []
        for i in range(nl):
            ks = [k for k in kord if k == "ID" or rng.random() < (0.9 if i == 0 else 0.4)]
            if rng.random() < 0.05:
                ks = []
            a = []
            for kk in ks:
                if kk == "ID":
                    vs = [enc("f%d" % i)]
                else:
                    vs = [enc("".join(rng.choice(alphabet) for _ in range(rng.choice([1, 2, 4, 8])))) for _ in range(rng.choice([0, 1, 1, 1, 2, 3]))]
                a.append([enc(kk), vs])
            rows.append({"n": rng.randrange(18), "a": a})
        files.append({"generated": True, "d": d, "rows": rows, "cl": rng.choice([0, 1, 10, 11, 12, 50]), "lines": []})
    return files


def data_files(limit):
    out = []
    d = os.path.join(core.REPO, "gffutils", "test", "data")
    for p in sorted(glob.glob(os.path.join(d, "*"))):
        if not p.endswith((".gff", ".gff3", ".gtf", ".txt")) or "chromsizes" in p or "_ids" in p or "50k_lines" in p:
            continue
        try:
            lines = []
            with open(p, encoding="utf-8") as f:
                for line in f:
                    line = line.rstrip("\n\r")
                    if line == "##FASTA" or line.startswith(">"):
                        break
                    if not line or line.startswith("#"):
                        continue
                    cols = line.split("\t")
                    if len(cols) < 9:
                        lines = []
                        break
                    if not all(c == "." or (c.isdigit() and (c == "0" or not c.startswith("0"))) for c in cols[3:5]):
                        continue        # int() parsing of non-canonical coordinate text (e.g. '944828 ') is outside the model
                    lines.append(line)
                    if len(lines) >= limit:
                        break
            if lines:
                out.append((os.path.basename(p), lines))
        except UnicodeDecodeError:
            continue
    return out


def run(ctx):
    thorough = ctx.tier == "thorough"
    ml = 3 if thorough else 2
    ctx.rule = ("D1: every file of 1..%d lines over an 8-entry attribute menu (different key orders, multi-valued key, escaped value, valueless flag, empty column) x 12 "
                "column/extra shapes, written in each of 36 dialects, x checklines 0..2 (MC_Import: StoredOnce, PrintIdentity and ReimportEquivalent for Consistent files); "
                "each printed case is imported by the code (file and :memory:, keep_order, sort_attribute_values), reopened and re-imported; D2: random candidate files of "
                "1-30 lines with Unicode values, line counts around checklines, classified and predicted by Gen_Import; D3: the first lines of the repository's data files "
                "predicted by Gen_Import. Non-trivial: >= 2 attributes on some line and a file longer than the window or a non-default dialect dimension; distinct by file.") % ml
    mc = ctx.tlc("MC_Import", MC_CFG % (ml, 7 if thorough else 1), expect="inv", label="files x dialects x checklines", timeout=3000)
    if not mc.ok:
        ctx.violation({"tlc": "MC_Import"}, "model:" + str(mc.violated), {"log": ctx.keep_log("MC_Import", mc.out)})
        return
    seen = {}
    for j in mc.json:
        seen[(json.dumps(j["lines"]), j["cl"])] = j
    cases = [seen[k] for k in sorted(seen)]
    ctx.exhaustive = not thorough
    limit = 12000 if thorough else 4000
    if len(cases) > limit:
        cases = ctx.rng.sample(cases, limit)
        ctx.exhaustive = False
    ctx.extra["cases_model_checked"] = mc.distinct

    def judge(cases, label, base):
        res = core.pmap(run_case, [(c, ctx.scratch, base + k, k % 3 == 0) for k, c in enumerate(cases)])
        for c, fails in zip(cases, res):
            for clause, got in fails[:1]:
                ctx.violation({"lines": [dec(l) for l in c["lines"]], "cl": c["cl"], "consistent": c["consistent"]}, label + clause,
                              {"observed": got, "expected_dialect": c["dialect"], "expected_printed": [dec(x) for x in c["printed"]]})
            nt = any(len(f["attrs"]) >= 2 for f in c["feats"]) and (len(c["lines"]) > c["cl"] + 1 or c["dialect"]["trail"] or c["dialect"]["quoted"]
                                                                     or c["dialect"]["rep"] or dec(c["dialect"]["fsep"]) != ";")
            ctx.count((c["lines"], c["cl"]), nt)
        ctx.traces += len(cases)
    judge(cases, "", 0)
    ctx.extra["consistent_cases_d1"] = sum(1 for c in cases if c["consistent"])
    ctx.sample({"file": [dec(l) for l in cases[-1]["lines"]], "checklines": cases[-1]["cl"], "consistent": cases[-1]["consistent"], "expected_dialect": cases[-1]["dialect"]})
    # D2 + D3 through the same model
    files = random_files(ctx.rng, 400 if thorough else 60)
    names = []
    for fn, lines in data_files(120 if thorough else 25):
        files.append({"generated": False, "d": {}, "rows": [], "cl": 10, "lines": [enc(l) for l in lines]})
        names.append(fn)
    p = ctx.path("files.json")
    texts = [k for f in files for r in f["rows"] for k, _ in r["a"]] + [l for f in files for l in f["lines"]]
    with open(p, "w") as f:
        json.dump({"wordna": A.word_na(texts), "files": files}, f)
    gen = ctx.tlc("Gen_Import", GEN_CFG, env={"SEED_FILE": p}, label="random candidate files and data files", timeout=2400)
    out = {j["k"]: j for j in gen.json}
    if len(out) != len(files):
        raise core.MachineryError("model printed %d files for %d" % (len(out), len(files)))
    g = [out[k + 1] for k in range(len(files))]
    judge(g, "beyond:", 10 ** 6)
    ctx.extra["consistent_cases_d2"] = sum(1 for c in g if c["consistent"])
    # D4: scale - consistent blocks repeated to thousands of lines
    blocks = [c for c in g if c["consistent"] and c["st"] == "ok" and len(c["lines"]) >= 3]
    for k, c in enumerate(ctx.rng.sample(blocks, min(len(blocks), 6 if thorough else 2))):
        reps = (6000 if thorough else 2500) // len(c["lines"]) + 1
        bad, detail = run_scaled(c, reps, ctx.path("c01_scaled_%d.gff" % k))
        if bad:
            ctx.violation({"lines": [dec(l) for l in c["lines"]], "cl": c["cl"], "consistent": True, "scaled_reps": reps}, bad, detail)
        ctx.count(("scaled", c["lines"], reps), True)
        ctx.traces += 1
        ctx.extra["scaled_file_lines"] = reps * len(c["lines"])
    ctx.extra["data_files"] = names
    ctx.assumptions += ["directives, comments and FASTA sections are C14's subject; files here consist of feature lines",
                        "coordinates are '.' or canonical decimals below 2**31",
                        "for files that are not Consistent (and for the data files) the code is compared with the algorithmic prediction of the model only"]


def replay(ctx, rec):
    c = rec["case"]
    if "lines" not in c:
        raise core.CannotReplay("no executable case in this replay file")
    files = [{"generated": False, "d": {}, "rows": [], "cl": c["cl"], "lines": [enc(l) for l in c["lines"]]}]
    p = ctx.path("files.json")
    with open(p, "w") as f:
        json.dump({"wordna": A.word_na(files[0]["lines"]), "files": files}, f)
    gen = ctx.tlc("Gen_Import", GEN_CFG, env={"SEED_FILE": p}, workers=1)
    j = gen.json[0]
    j["consistent"] = c.get("consistent", False)
    if c.get("scaled_reps"):
        return run_scaled(j, c["scaled_reps"], ctx.path("c01_scaled_replay.gff"))[0] is not None
    return any(bool(run_case((j, ctx.scratch, kk, True))) for kk in (0, 1, 2))      # (the optional sections of run_case rotate with the case index)
