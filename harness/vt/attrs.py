"""Projection of gffutils attribute / dialect / feature objects to the specification's JSON
(text = list of code points).  No semantics here."""
import copy
from .core import enc, dec

DKEYS = [("lead", "leading semicolon"), ("trail", "trailing semicolon"), ("quoted", "quoted GFF2 values"),
         ("fsep", "field separator"), ("kvsep", "keyval separator"), ("mvsep", "multival separator"),
         ("fmt", "fmt"), ("rep", "repeated keys"), ("order", "order")]


def proj_dialect(d):
    return {"lead": bool(d["leading semicolon"]), "trail": bool(d["trailing semicolon"]),
            "quoted": bool(d["quoted GFF2 values"]), "fsep": enc(d["field separator"]),
            "kvsep": enc(d["keyval separator"]), "mvsep": enc(d["multival separator"]),
            "fmt": d["fmt"], "rep": bool(d["repeated keys"]), "order": [enc(k) for k in d["order"]]}


def real_dialect(j):
    return {"leading semicolon": j["lead"], "trailing semicolon": j["trail"], "quoted GFF2 values": j["quoted"],
            "field separator": dec(j["fsep"]), "keyval separator": dec(j["kvsep"]),
            "multival separator": dec(j["mvsep"]), "fmt": j["fmt"], "repeated keys": j["rep"],
            "order": [dec(k) for k in j["order"]]}


def _vals(v):
    if isinstance(v, (list, tuple)):
        out = []
        for x in v:
            if not isinstance(x, str):
                return None
            out.append(enc(x))
        return out
    return None


def proj_attrs(a):
    """Attributes (or dict) -> [[key, [values]]] in insertion order; None if not lists of strings"""
    d = a._d if hasattr(a, "_d") else a
    out = []
    for k, v in d.items():
        vs = _vals(v)
        if vs is None or not isinstance(k, str):
            return None
        out.append([enc(k), vs])
    return out


def real_attrs(j):
    import collections
    d = collections.OrderedDict()
    for k, vs in j:
        d[dec(k)] = [dec(v) for v in vs]
    return dict(d)


def proj_feature(f):
    cols = [f.seqid, f.source, f.featuretype, "." if f.start is None else str(f.start),
            "." if f.end is None else str(f.end), f.score, f.strand, f.frame]
    return {"cols": [enc(c) for c in cols], "attrs": proj_attrs(f.attributes),
            "extra": [enc(x) for x in f.extra], "d": proj_dialect(f.dialect)}


# ---------------------------------------------------------------- observations of the real code
def obs_line(line_cps):
    """feature_from_line(line, keep_order=True) -> projection + printed line"""
    from gffutils.feature import feature_from_line
    line = dec(line_cps)
    try:
        f = feature_from_line(line, keep_order=True)
        p = proj_feature(f)
        p["printed"] = enc(str(f))
        p["raised"] = ""
        return p, f
    except Exception as e:  # noqa
        return {"raised": type(e).__name__}, None


def obs_infer(s_cps):
    """parser._split_keyvals(s) -> attrs, dialect and the re-print with the inferred dialect"""
    from gffutils import parser
    s = dec(s_cps)
    try:
        q, d = parser._split_keyvals(s)
        a = proj_attrs(q)
        typed = a is not None
        printed = enc(parser._reconstruct(q, d, keep_order=True)) if typed else []
        return {"op": "infer", "s": s_cps, "raised": False, "typed": typed, "attrs": a if typed else [],
                "d": proj_dialect(d), "printed": printed}
    except Exception as e:  # noqa
        return {"op": "infer", "s": s_cps, "raised": True, "typed": False, "attrs": [], "d": proj_dialect(_default()),
                "printed": [], "exc": type(e).__name__}


def _default():
    from gffutils import constants
    return constants.dialect


def word_na(texts):
    """side table: the non-ASCII code points of the batch that Python's \\w matches"""
    import re
    cps = set()
    for t in texts:
        for c in t:
            if c >= 128:
                cps.add(c)
    return sorted(c for c in cps if re.match(r"\w", chr(c)))
