"""Projection of gffutils attribute / dialect / feature objects to the specification's JSON
(text = list of code points).  No semantics here."""
import copy
from .core import enc, dec

DKEYS = [("lead", "leading semicolon"), ("trail", "trailing semicolon"), ("quoted", "quoted GFF2 values"),
         ("fsep", "field separator"), ("kvsep", "keyval separator"), ("mvsep", "multival separator"),
         ("fmt", "fmt"), ("rep", "repeated keys"), ("order", "order")]


def proj_dialect(d):
    return {"lead": bool(d["leading semicolon"]), "trail": bool(d["trailing semicolon"]),
            "quoted": bool(d["quoted GFF2 values"]), "fsep": enc(d["field separator"]),
            "kvsep": enc(d["keyval separator"]), "mvsep": enc(d["multival separator"]),
            "fmt": d["fmt"], "rep": bool(d["repeated keys"]), "order": [enc(k) for k in d["order"]]}


def real_dialect(j):
    return {"leading semicolon": j["lead"], "trailing semicolon": j["trail"], "quoted GFF2 values": j["quoted"],
            "field separator": dec(j["fsep"]), "keyval separator": dec(j["kvsep"]),
            "multival separator": dec(j["mvsep"]), "fmt": j["fmt"], "repeated keys": j["rep"],
            "order": [dec(k) for k in j["order"]]}


def _vals(v):
    if isinstance(v, (list, tuple)):
        out = []
        for x in v:
            if not isinstance(x, str):
                return None
            out.append(enc(x))
        return out
    return None


def stored_items(a):
    """(key, stored value) pairs of an Attributes object (or dict) in insertion order, through the PUBLIC interface only: with
    constants.always_return_list switched on, item access shows the stored sequence as it is (no private attribute is touched)"""
    if isinstance(a, dict):
        return list(a.items())
    from gffutils import constants
    old = constants.always_return_list
    constants.always_return_list = True
    try:
        return [(k, a[k]) for k in a.keys()]
    finally:
        constants.always_return_list = old


def to_stored_json(f):
    """the JSON text under which a Feature's attributes are stored: helpers._jsonify where it exists (the function C17 is anchored in),
    else the attributes column of Feature.astuple() (what the importer inserts)"""
    from gffutils import helpers
    fn = getattr(helpers, "_jsonify", None)
    return fn(f.attributes) if fn is not None else f.astuple()[9]


def from_stored_json(txt):
    """stored JSON text -> attributes container, the way a row becomes a Feature"""
    from gffutils import helpers
    fn = getattr(helpers, "_unjsonify", None)
    if fn is not None:
        return fn(txt, isattributes=True)
    from gffutils.feature import Feature
    return Feature(attributes=txt).attributes


def proj_attrs(a):
    """Attributes (or dict) -> [[key, [values]]] in insertion order; None if not lists of strings"""
    out = []
    for k, v in stored_items(a):
        vs = _vals(v)
        if vs is None or not isinstance(k, str):
            return None
        out.append([enc(k), vs])
    return out


def real_attrs(j):
    import collections
    d = collections.OrderedDict()
    for k, vs in j:
        d[dec(k)] = [dec(v) for v in vs]
    return dict(d)


def proj_feature(f):
    cols = [f.seqid, f.source, f.featuretype, "." if f.start is None else str(f.start),
            "." if f.end is None else str(f.end), f.score, f.strand, f.frame]
    return {"cols": [enc(c) for c in cols], "attrs": proj_attrs(f.attributes),
            "extra": [enc(x) for x in f.extra], "d": proj_dialect(f.dialect)}


# ---------------------------------------------------------------- observations of the real code
def obs_line(line_cps):
    """feature_from_line(line, keep_order=True) -> projection + printed line"""
    from gffutils.feature import feature_from_line
    line = dec(line_cps)
    try:
        # parsed twice: the first result is edited IN PLACE (values appended / cleared, a key added) before the same text is parsed again -
        # what a parse returns depends on the text alone, never on what a caller did with an earlier result
        f0 = feature_from_line(line, keep_order=True)
        for k, v in stored_items(f0.attributes):
            if isinstance(v, list):
                v.append("edited-by-an-earlier-caller")
        f0.attributes["an_earlier_callers_key"] = ["x"]
        f = feature_from_line(line, keep_order=True)
        p = proj_feature(f)
        p["printed"] = enc(str(f))
        p["raised"] = ""
        return p, f
    except Exception as e:  # noqa
        return {"raised": type(e).__name__}, None


class NoEntrance(Exception):
    """neither the anchored private function nor a public route can take this input"""


def split_keyvals(s, dialect=None):
    """attribute-column text -> (attributes, dialect): parser._split_keyvals where it exists (the function C07/C08/C09 are anchored in);
    otherwise the public route - feature_from_line on a nine-column line carrying s (only possible when s has no tab / line break)"""
    from gffutils import parser
    fn = getattr(parser, "_split_keyvals", None)
    if fn is not None:
        return fn(s) if dialect is None else fn(s, dialect=dialect)
    if "\t" in s or "\n" in s or "\r" in s:
        raise NoEntrance(s)
    from gffutils.feature import feature_from_line
    f = feature_from_line("c\t.\tt\t1\t2\t.\t+\t.\t" + s, dialect=dialect, keep_order=True)
    return f.attributes, f.dialect


def reconstruct(q, d, keep_order=True):
    """(attributes, dialect) -> attribute-column text: parser._reconstruct where it exists, otherwise the ninth column of a printed Feature"""
    from gffutils import parser
    fn = getattr(parser, "_reconstruct", None)
    if fn is not None:
        return fn(q, d, keep_order=keep_order)
    from gffutils.feature import Feature
    return str(Feature(seqid="c", featuretype="t", start=1, end=2, attributes=q, dialect=d, keep_order=keep_order)).split("\t", 8)[8]


def obs_infer(s_cps):
    """parser._split_keyvals(s) -> attrs, dialect and the re-print with the inferred dialect"""
    s = dec(s_cps)
    try:
        q, d = split_keyvals(s)
        a = proj_attrs(q)
        typed = a is not None
        printed = enc(reconstruct(q, d, keep_order=True)) if typed else []
        return {"op": "infer", "s": s_cps, "raised": False, "typed": typed, "attrs": a if typed else [],
                "d": proj_dialect(d), "printed": printed}
    except Exception as e:  # noqa
        return {"op": "infer", "s": s_cps, "raised": True, "typed": False, "attrs": [], "d": proj_dialect(_default()),
                "printed": [], "exc": type(e).__name__}


def _default():
    from gffutils import constants
    return constants.dialect


def word_na(texts):
    """side table: the non-ASCII code points of the batch that Python's \\w matches"""
    import re
    cps = set()
    for t in texts:
        for c in t:
            if c >= 128:
                cps.add(c)
    return sorted(c for c in cps if re.match(r"\w", chr(c)))
