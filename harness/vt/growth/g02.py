"""G02 (growth, beyond the listed properties) - visibility of writes made through one FeatureDB handle: what the handle reads, what a second
connection / a reopening reads, and whether the handle's connection is inside a transaction, over histories of add_relation (with parent_func /
child_func that succeed, raise, or return None as the docstring's own example does), delete, update([]), update([new]) and reopen.
Spec: Txn.tla (algorithmic layer = the commit points of interface.py; declarative layer = Coherent / DurableOnOk / FailKeepsDisk / ReopenIsDisk /
EmptyUpdateIsNoOp / ViewMonotone), MC_Txn (bounded exhaustive check + random histories), Trace_Txn (judge of recorded steps).
Reported under the id G02; nothing here claims a listed property."""
import gc
import json
import os
import sqlite3

from .. import core

CONSTS = ('CONSTANT Ids = {"a", "b", "c"}\nCONSTANT Start = {"a", "b"}\nCONSTANT Fresh = {"c"}\nCONSTANT FuncPairs <- MC_FuncPairs\nCONSTANT MaxMark = 2\n'
          "INIT HInit\nNEXT HNext\nCHECK_DEADLOCK FALSE\n")
PROPS = "INVARIANT Coherent\nPROPERTY DurableOnOk\nPROPERTY EmptyUpdateIsNoOp\nPROPERTY FailKeepsDisk\nPROPERTY ReopenIsDisk\nPROPERTY ViewMonotone\n"
LINE = "chr1\t.\tgene\t1\t10\t.\t+\t.\tID=%s\n"
IDS = ["a", "b", "c"]
MAXMARK = 2


class Boom(Exception):
    pass


def _func(kind, which):
    if kind == "none":
        return None

    def f(parent, child):
        if kind == "raise":
            raise Boom()
        t = parent if which == "p" else child
        t.attributes["m"] = list(t.attributes.get("m", [])) + ["x"]
        return t if kind == "ok" else None
    return f


def _norm(alive, rels, mark):
    return {"alive": sorted(alive), "rels": sorted([p, c, int(l)] for p, c, l in rels), "mark": {i: min(mark.get(i, 0), MAXMARK) for i in IDS}}


def _tables(execute):
    alive, mark = [], {}
    for r in execute("SELECT id, attributes FROM features"):
        alive.append(r[0])
        mark[r[0]] = len(json.loads(r[1]).get("m", []))
    rels = [tuple(r) for r in execute("SELECT parent, child, level FROM relations")]
    return _norm(alive, rels, mark)


def _model(t):
    return _norm(t["alive"], t["rels"], t["mark"])


def run_hist(args):
    """replay one history of the model into a real file database; returns the observed steps"""
    k, hist, scratch = args
    import gffutils
    from gffutils import exceptions
    path = os.path.join(scratch, "h%d.db" % k)
    gffutils.create_db("".join(LINE % i for i in ("a", "b")), path, from_string=True, force=True)
    db = gffutils.FeatureDB(path)

    def second():
        c = sqlite3.connect(path)
        try:
            return _tables(lambda q: c.execute(q).fetchall())
        finally:
            c.close()

    def mine():
        return _tables(lambda q: [tuple(r) for r in db.execute(q).fetchall()])
    out = []
    d, v, o = second(), mine(), db.conn.in_transaction
    for st in hist:
        lab = dict(st["lab"])
        try:
            if lab["op"] == "add_relation":
                db.add_relation(lab["p"], lab["c"], 1, parent_func=_func(lab["pf"], "p"), child_func=_func(lab["cf"], "c"))
            elif lab["op"] == "delete":
                db.delete(lab["id"], make_backup=False)
            elif lab["op"] == "update_empty":
                db.update([], make_backup=False)
            elif lab["op"] == "update_new":
                db.update(LINE % lab["id"], from_string=True, make_backup=False)
            elif lab["op"] == "reopen":
                db.conn.close()
                db = gffutils.FeatureDB(path)
            outcome = "ok"
        except exceptions.FeatureNotFoundError:
            outcome = "FeatureNotFoundError"
        except sqlite3.IntegrityError:
            outcome = "IntegrityError"
        except sqlite3.OperationalError as e:
            outcome = "locked" if "locked" in str(e) else "OperationalError:" + str(e)
        except (Boom, AttributeError):
            outcome = "raised"
        except Exception as e:                      # any other exception is an observation, not a machinery error
            outcome = type(e).__name__
        gc.collect()
        lab["outcome"] = outcome
        d2, v2, o2 = second(), mine(), db.conn.in_transaction
        out.append({"d": d, "v": v, "o": o, "lab": lab, "d2": d2, "v2": v2, "o2": o2})
        d, v, o = d2, v2, o2
    db.conn.close()
    os.unlink(path)
    return out


def run(ctx):
    thorough = ctx.tier == "thorough"
    depth = 7 if thorough else 6
    ctx.rule = ("Txn.tla: every state reachable within %d public calls over {a, b stored; c addable}, seven parent_func / child_func kinds, at most three relations: "
                "Coherent, DurableOnOk, EmptyUpdateIsNoOp, FailKeepsDisk, ReopenIsDisk, ViewMonotone hold; NeverPending / NeverLockedUpdate / NoLateCommit are refuted "
                "(the situations exist).  Random histories of 7 calls from the same model are replayed into a real file database: outcome of every call, the handle's "
                "tables, a second connection's tables and conn.in_transaction after every call must equal the model's; a differing step is judged by Trace_Txn "
                "(StepOK: the declarative layer), 'drift' if it satisfies it." % depth)
    bound = "CONSTRAINT Bound\n" if thorough else "CONSTRAINT Bound6\n"
    mc = ctx.tlc("MC_Txn", CONSTS + "VIEW HView\n" + bound + PROPS, expect="inv", label="declarative layer on the algorithmic layer", timeout=900)
    if not mc.ok:
        ctx.violation({"tlc": "MC_Txn"}, "model:" + str(mc.violated), {"log": ctx.keep_log("MC_Txn", mc.out)})
        return
    for w in ("NeverPending", "NeverLockedUpdate", "NoLateCommit"):
        r = ctx.tlc("MC_Txn", CONSTS + "VIEW HView\nCONSTRAINT Bound6\nINVARIANT %s\n" % w, expect="viol", label="witness: %s must be refuted" % w, timeout=300)
        if r.violated != w:
            ctx.violation({"tlc": "MC_Txn", "witness": w}, "vacuous:%s_not_refuted" % w, {"log": ctx.keep_log("MC_Txn_" + w, r.out)})
    ctx.extra["refuted_as_expected"] = ["NeverPending", "NeverLockedUpdate", "NoLateCommit (Dev_LateCommit: delete() after a half-done add_relation commits its relation)"]
    n = 6000 if thorough else 1500
    # TLC evaluates the printing invariant on every successor it generates while simulating: far more histories than traces come back, all of them
    # behaviours of the model; n of them are drawn for the replay
    sim = ctx.tlc("MC_Txn", CONSTS + "INVARIANT PrintHist\n", workers=1, simulate="num=%d" % (n // 20), depth=8, extra=["-seed", str(ctx.seed)],
                  label="random histories for replay", timeout=900)
    hists = [j for j in sim.json if isinstance(j, list) and len(j) == 7]
    if len(hists) < n:
        raise core.MachineryError("simulation printed %d histories, expected at least %d" % (len(hists), n))
    ctx.extra["histories_printed_by_the_model"] = len(hists)
    hists = ctx.rng.sample(hists, n)
    # a refused update waits out sqlite's 5 s busy timeout: replay a handful of those in full, cut the others before the first refused call
    full_locked = 0
    todo = []
    for k, h in enumerate(hists):
        idx = [i for i, s in enumerate(h) if s["lab"]["outcome"] == "locked"]
        if idx:
            if full_locked < (16 if thorough else 8):
                full_locked += 1
                h = h[:idx[0] + 1 + (1 if len(idx) == 1 else 0)] if len(h) > idx[0] + 1 else h
                h = [s for i, s in enumerate(h) if i <= idx[0] or s["lab"]["outcome"] != "locked"]
            else:
                h = h[:idx[0]]
        if h:
            todo.append((k, h, ctx.scratch))
    res = core.pmap(run_hist, todo)
    tojudge = []
    outcomes = {}
    for (k, h, _), obs in zip(todo, res):
        case = {"history": [s["lab"] for s in h]}
        for s, o in zip(h, obs):
            outcomes[o["lab"]["op"] + ":" + o["lab"]["outcome"]] = outcomes.get(o["lab"]["op"] + ":" + o["lab"]["outcome"], 0) + 1
            exact = (o["lab"]["outcome"] == s["lab"]["outcome"] and o["d2"] == _model(s["disk"]) and o["v2"] == _model(s["view"]) and o["o2"] == s["open"])
            if not exact:
                tojudge.append((case, s, o))
                break
        ctx.count(case["history"], any(s["lab"]["outcome"] != "ok" for s in h))
    ctx.traces += len(todo)
    ctx.extra["calls_by_outcome"] = outcomes
    ctx.extra["histories_with_a_refused_update_replayed_in_full"] = full_locked
    if tojudge:
        p = ctx.path("txn.json")
        with open(p, "w") as f:
            json.dump({"steps": [o for _, _, o in tojudge]}, f)
        run_ = ctx.tlc("Trace_Txn", CONSTS.replace("INIT HInit\nNEXT HNext\n", "INIT TInit\nNEXT TNext\n").replace("CONSTANT FuncPairs <- MC_FuncPairs\n", "CONSTANT FuncPairs = {}\n"),
                       env={"TRACE_FILE": p}, label="judge steps that differ from the algorithmic layer")
        rejected = set(j["reject"] for j in run_.json if "reject" in j)
        for n_, (case, s, o) in enumerate(tojudge, 1):
            detail = {"step": o["lab"], "model": {"outcome": s["lab"]["outcome"], "disk": _model(s["disk"]), "view": _model(s["view"]), "open": s["open"]},
                      "observed": {"disk": o["d2"], "view": o["v2"], "open": o["o2"]}}
            if n_ in rejected:
                ctx.violation(case, "visibility:StepOK", detail)
            else:
                # the declarative layer is satisfied but the commit points are not the modelled ones: the model no longer describes the code
                ctx.violation(case, "visibility:not_the_modelled_commit_points", detail)
    ctx.sample({"history": [s["lab"] for s in todo[0][1]]})
    ctx.assumptions += ["file databases, default journal mode, one handle and one observer connection; make_backup=False",
                        "the 5 s busy timeout of a refused update() is replayed for a handful of histories only, the others are cut before it",
                        "marks (how often a func rewrote a row) are compared up to the cap of the model"]


def replay(ctx, rec):
    raise core.CannotReplay("growth checks are re-run, not replayed: ./check G02")
