"""G01 (growth, beyond the listed properties) - gffwriter.GFFWriter.write_gene_recs and helpers.sanitize_gff_db.
Spec: Writer.tla (Write_Alg / WriterOK / Sanitize_Decl), MC_Writer (the walk keeps the docstring's promises on every small hierarchy),
Trace_Writer (judge of recorded outputs).  Reported under the id G01; nothing here claims a listed property."""
import io
import json

from .. import core
from ..core import enc, dec
from .. import dbio

MC_CFG = "CONSTANT WordNA = {}\nCONSTANT Deviations = {}\nINIT Init\nNEXT Next\nCHECK_DEADLOCK FALSE\nINVARIANT InvWriter\nINVARIANT InvDeepTwice\n"
TRACE_CFG = "CONSTANT WordNA = {}\nCONSTANT Deviations = {}\nINIT Init\nNEXT Next\nCHECK_DEADLOCK FALSE\n"


def written_ids(db, gene, in_place_path=None):
    from gffutils import gffwriter
    buf = io.StringIO()
    w = gffwriter.GFFWriter(buf, with_header=False)
    w.write_gene_recs(db, gene)
    text = buf.getvalue()
    ids = []
    for line in text.splitlines():
        attrs = dict(kv.split("=", 1) for kv in line.split("\t")[8].split(";") if "=" in kv)
        ids.append(attrs.get("ID"))
    return ids, text


def run_case(c):
    text = "\n".join(dec(l) for l in c["lines"]) + "\n"
    db = dbio.create(text)
    ids, out_text = written_ids(db, "g")
    # every written line is the stored feature's printed form
    by_id = {f.id: str(f) for f in db.all_features()}
    bad_line = [l for l, i in zip(out_text.splitlines(), ids) if by_id.get(i) != l]
    # sanitize: start <= end everywhere, gid = the gene's id on every record of the unit
    from gffutils import helpers
    with dbio.quiet():
        s = helpers.sanitize_gff_db(db)
    san = [{"id": f.id, "start": f.start, "end": f.end, "gid": list(f.attributes.get("gid", []))} for f in s.all_features()]
    return {"ids": ids, "bad_line": bad_line[:1], "san": san}


def run(ctx):
    ctx.rule = ("Every hierarchy of MC_Writer (gene, two mRNAs, 2-3 exons with every parent assignment incl. shared exons and every start order, optional CDS, a record "
                "below an exon, a non-mRNA child of the gene): Write_Alg satisfies WriterOK; one case in 9 written by the real GFFWriter into a stream and judged "
                "(exact walk, else Trace_Writer: canonical or not); sanitize_gff_db on the same databases (start <= end, gid of the unit's gene on every record).")
    mc = ctx.tlc("MC_Writer", MC_CFG, expect="inv", label="the walk keeps the docstring's promises", timeout=1800)
    if not mc.ok:
        ctx.violation({"tlc": "MC_Writer"}, "model:" + str(mc.violated), {"log": ctx.keep_log("MC_Writer", mc.out)})
        return
    cases = [j for j in mc.json if "out" in j]
    cases = ctx.rng.sample(cases, min(len(cases), 1300))
    res = core.pmap(run_case, cases)
    tojudge = []
    for c, r in zip(cases, res):
        case = {"lines": [dec(l) for l in c["lines"]]}
        if r["bad_line"]:
            ctx.violation(case, "written_line_is_not_the_stored_feature", {"line": r["bad_line"][0]})
        if [enc(i) if i is not None else [] for i in r["ids"]] != c["out"]:
            tojudge.append((c, r))
        # the sanitized database holds the gene units ([gene] + children(gene), i.e. two levels deep) - records further down or outside any gene
        # are NOT carried over (observed, recorded in DESIGN section 6; Sanitize_Decl states what is kept)
        ids = set(["g"]) | set(dec(x[1]) for x in c["rels"] if dec(x[0]) == "g")
        sids = [x["id"] for x in r["san"]]
        if sorted(sids) != sorted(ids) or any(x["start"] > x["end"] for x in r["san"]) or any(x["gid"] != ["g"] for x in r["san"]):
            ctx.violation(case, "sanitize", {"observed": r["san"][:6]})
        ctx.count(case["lines"], True)
    ctx.traces += len(cases)
    if tojudge:
        p = ctx.path("writer.json")
        with open(p, "w") as f:
            json.dump({"cases": [{"feats": c["feats"], "rels": [list(x) for x in c["rels"]], "gene": enc("g"), "out": [enc(i) if i is not None else [] for i in r["ids"]]}
                                 for c, r in tojudge]}, f)
        run_ = ctx.tlc("Trace_Writer", TRACE_CFG, env={"TRACE_FILE": p}, label="judge outputs that differ from the walk's own order")
        drift = 0
        for j in run_.json:
            if "reject" not in j:
                continue
            c, r = tojudge[j["reject"] - 1]
            if j["clause"] == "drift":
                drift += 1
            else:
                ctx.violation({"lines": [dec(l) for l in c["lines"]]}, "write_gene_recs:" + j["clause"], {"written_ids": r["ids"], "walk": [dec(x) for x in c["out"]]})
        ctx.extra["alg_drift"] = drift
    ctx.sample({"file": [dec(l) for l in cases[0]["lines"]], "written_order": [dec(x) for x in cases[0]["out"]]})
    ctx.assumptions += ["the stream form of GFFWriter (with_header=False); in_place and the header line (a timestamp) are not modelled",
                        "a record two levels below an mRNA is written twice by design of the walk (InvDeepTwice): recorded, not judged"]


def replay(ctx, rec):
    c = rec["case"]
    if "lines" not in c:
        raise core.CannotReplay("no executable case in this replay file")
    raise core.CannotReplay("growth checks are re-run, not replayed: ./check extra")
