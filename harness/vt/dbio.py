"""Driving and projecting real gffutils databases (no semantics: plain SQL on the tables, ids of what the API yields)."""
import contextlib
import io
import os
import warnings

from .core import enc, dec


def quiet():
    return contextlib.redirect_stderr(io.StringIO())


def create(text, dbfn=":memory:", **kw):
    import gffutils
    with quiet(), warnings.catch_warnings():
        warnings.simplefilter("ignore")
        if dbfn == ":memory:":
            return gffutils.create_db(text, dbfn, from_string=True, **kw)
        return gffutils.create_db(text, dbfn, from_string=True, **kw)


def rel_rows(conn):
    return sorted((enc(p), enc(c), l) for p, c, l in conn.execute("SELECT parent, child, level FROM relations"))


def ids_of(it):
    return [enc(f.id) for f in it]


def proj_feature_row(r):
    """a row of the features table -> the specification's feature record (attribute values kept in stored order)"""
    import json
    attrs = json.loads(r["attributes"])
    extra = json.loads(r["extra"])
    return {"id": enc(r["id"]), "seqid": enc(r["seqid"]), "source": enc(r["source"]), "ftype": enc(r["featuretype"]),
            "start": -1 if r["start"] is None else r["start"], "end": -1 if r["end"] is None else r["end"],
            "score": enc(r["score"]), "strand": enc(r["strand"]), "frame": enc(r["frame"]),
            "attrs": [[enc(k), [enc(v) for v in vs]] for k, vs in attrs.items()], "extra": [enc(x) for x in extra]}


def proj_feature_obj(f):
    """a Feature object as the API returns it -> the specification's feature record (same shape as proj_feature_row)"""
    return {"id": enc(f.id), "seqid": enc(f.seqid), "source": enc(f.source), "ftype": enc(f.featuretype),
            "start": -1 if f.start is None else f.start, "end": -1 if f.end is None else f.end,
            "score": enc(f.score), "strand": enc(f.strand), "frame": enc(f.frame),
            "attrs": [[enc(k), [enc(v) for v in list(f.attributes[k])]] for k in f.attributes.keys()], "extra": [enc(x) for x in f.extra]}


def lookups(db, universe):
    """GffDB!Lookup on a LIVE handle: every key of the universe is looked up (by key, and - when found - again after the returned object was
    edited, and by Feature); returns {key: record | 'notfound' | 'raised:X'}.  The answer must be a function of the stored content alone."""
    from gffutils.exceptions import FeatureNotFoundError
    out = {}
    for key in universe:
        try:
            g = db[key]
            g.start = (g.start or 0) + 7            # the caller's copy is the caller's: a later look-up must not see these edits
            g.attributes["zz_edit"] = ["q"]
            g.source = "edited"
            h = db[key]
            rec = canon_feature(proj_feature_obj(h))
            try:
                k2 = db[h]
                if k2.id != h.id or str(k2) != str(h):
                    rec = "by_feature_differs"
            except FeatureNotFoundError:
                rec = "by_feature_notfound"
            out[key] = rec
        except FeatureNotFoundError:
            out[key] = "notfound"
        except Exception as e:  # noqa
            out[key] = "raised:" + type(e).__name__
    return out


def expected_lookups(snap_feats, universe):
    by = {dec(f["id"]): canon_feature(f) for f in snap_feats}
    return {k: by.get(k, "notfound") for k in universe}


def canon_feature(f):
    g = dict(f)
    g["attrs"] = sorted([[k, sorted(vs)] for k, vs in f["attrs"]])
    return g


def _stored_dialect(conn):
    """the dialect a new handle reports: the first row of meta (compared before/after, never against the model)"""
    import json
    rows = conn.execute("SELECT dialect FROM meta ORDER BY rowid LIMIT 1").fetchall()
    try:
        return json.loads(rows[0][0]) if rows else None
    except Exception:  # noqa
        return "undecodable"


def proj_db(conn, canon=False):
    """whole logical content, read with plain SQL"""
    import sqlite3
    conn.row_factory = sqlite3.Row
    feats = [proj_feature_row(r) for r in conn.execute("SELECT * FROM features ORDER BY rowid")]
    if canon:
        feats = [canon_feature(f) for f in feats]
    return {"feats": feats,
            "rels": [list(x) for x in rel_rows(conn)],
            "ctr": sorted([enc(b), n] for b, n in conn.execute("SELECT base, n FROM autoincrements")),
            "dups": sorted([enc(a), enc(b)] for a, b in conn.execute("SELECT idspecid, newid FROM duplicates")),
            "dirs": [enc(d[0]) for d in conn.execute("SELECT directive FROM directives ORDER BY rowid")],
            "nmeta": conn.execute("SELECT count(*) FROM meta").fetchone()[0],
            "dialect": _stored_dialect(conn)}


def proj_file(path, canon=False):
    """content of a database file through a fresh connection; a file that is not a readable gffutils database is a (comparable) observation, not an error"""
    import sqlite3
    conn = sqlite3.connect(path)
    try:
        return proj_db(conn, canon)
    except sqlite3.DatabaseError as e:
        return {"feats": [], "rels": [], "ctr": [], "dups": [], "dirs": [], "nmeta": -1, "unreadable": str(e)[:80]}
    finally:
        conn.close()
