"""pytest plugin (loaded with -p vt.pytest_c19; nothing changes in /repo): while the repository's own tests run, every read-style
FeatureDB method is bracketed and the SQL statements issued on the handle's connection during it are recorded.  A write statement
issued while a read-style call (or a step of the generator it returned) is running is reported.  Report: $VT_C19_REPORT (JSON)."""
import functools
import inspect
import json
import os
import sqlite3
import threading

READS = ["__getitem__", "all_features", "features_of_type", "children", "parents", "region", "interfeatures", "create_introns", "create_splice_sites",
         "merge", "children_bp", "bed12", "count_features_of_type", "featuretypes", "seqids", "iter_by_parent_childs", "schema", "_analyzed"]
STATE = {"calls": {}, "statements": 0, "violations": [], "dbs": 0}
_local = threading.local()


def _stack():
    if not hasattr(_local, "s"):
        _local.s = []
    return _local.s


from vt.sqlclass import Classifier
_CLS = Classifier()


def _is_write(stmt):
    return _CLS.is_write(stmt)


def _tracer(stmt):
    st = _stack()
    if st:
        STATE["statements"] += 1
        if _is_write(stmt) and len(STATE["violations"]) < 50:
            STATE["violations"].append({"method": st[-1], "statement": stmt.strip()[:200]})


def _wrap_gen(g, name):
    while True:
        _stack().append(name)
        try:
            x = next(g)
        except StopIteration:
            return
        finally:
            _stack().pop()
        yield x


def _wrap(name, fn):
    @functools.wraps(fn)
    def inner(self, *a, **k):
        STATE["calls"][name] = STATE["calls"].get(name, 0) + 1
        try:
            self.conn.set_trace_callback(_tracer)
        except Exception:  # noqa
            pass
        _stack().append(name)
        try:
            r = fn(self, *a, **k)
        finally:
            _stack().pop()
        if inspect.isgenerator(r):
            return _wrap_gen(r, name)
        return r
    return inner


def pytest_configure(config):
    from gffutils import interface
    for name in READS:
        fn = getattr(interface.FeatureDB, name, None)
        if fn is not None:
            setattr(interface.FeatureDB, name, _wrap(name, fn))


def pytest_unconfigure(config):
    p = os.environ.get("VT_C19_REPORT")
    if p:
        with open(p, "w") as f:
            json.dump(STATE, f)
