"""./check entry point."""
import argparse
import glob
import importlib
import io
import json
import os
import subprocess
import sys
import traceback

from . import core


def _driver(prop):
    if prop.upper().startswith("G"):       # growth checks (beyond the listed properties): ./check extra | ./check G01
        return importlib.import_module("vt.growth.%s" % prop.lower())
    try:
        return importlib.import_module("vt.drivers.%s" % prop.lower())
    except ImportError as e:
        if "drivers" in str(e):
            raise core.MachineryError("no driver for %s" % prop)
        raise


def run_check(prop, tier, seed):
    ctx = core.Ctx(prop, tier, seed)
    err = None
    try:
        core.assert_repo()
        mod = _driver(prop)
        # gffutils writes progress to stderr unconditionally; keep our stdout clean
        mod.run(ctx)
    except core.MachineryError as e:
        err = e
    except Exception as e:  # harness bug = machinery failure, never a verdict
        err = core.MachineryError("harness exception: %s\n%s" % (e, traceback.format_exc()))
    finally:
        try:
            ctx.write_evidence(err)
        finally:
            ctx.cleanup()
    if err is not None:
        sys.stderr.write("MACHINERY-ERROR property=%s %s\n" % (prop, err))
        return 2
    n = len(ctx.violations)
    print("%s tier=%s seed=%d states=%d transitions=%d traces=%d evaluations=%d nontrivial=%d known=%s violations=%d wall=%.1fs" % (
        prop, tier, seed, ctx.states, ctx.transitions, ctx.traces, ctx.evaluations, len(ctx.nontrivial),
        sorted(ctx.known_printed), n, __import__("time").time() - ctx.t0))
    return 1 if n else 0


def run_replay(path):
    with open(path) as f:
        rec = json.load(f)
    prop = rec["property"]
    ctx = core.Ctx(prop, rec.get("tier", "quick"), rec.get("seed", 0))
    try:
        core.assert_repo()
        mod = _driver(prop)
        still = mod.replay(ctx, rec)
    except core.CannotReplay as e:
        print("replay of %s: %s" % (path, e))
        return 2
    finally:
        ctx.cleanup()
    if still:
        print("VIOLATION property=%s replay=%s clause=%s" % (prop, path, rec.get("clause")))
        return 1
    print("replay of %s: no longer violates" % path)
    return 0


def run_setup():
    """Syntax / level check of every module with SANY and a smoke run of one model."""
    bad = 0
    mods = sorted(glob.glob(os.path.join(core.SPEC, "*.tla")))
    for m in mods:
        p = subprocess.run(["java", "-cp", core.TLA_CP, "tla2sany.SANY", os.path.basename(m)], cwd=core.SPEC,
                           stdout=subprocess.PIPE, stderr=subprocess.STDOUT)
        txt = p.stdout.decode("utf-8", "replace")
        if p.returncode != 0 or "*** Errors" in txt or "Fatal errors" in txt or "Could not parse" in txt:
            # Apalache-typed wrappers and modules that need IOEnv still parse; anything else is an error
            print("SANY FAILED: %s\n%s" % (m, txt[-1500:]))
            bad += 1
    print("setup: %d modules parsed, %d failed" % (len(mods), bad))
    return 1 if bad else 0


def main(argv=None):
    ap = argparse.ArgumentParser(prog="check")
    ap.add_argument("what")
    ap.add_argument("arg", nargs="?")
    ap.add_argument("--tier", default=os.environ.get("VERIF_TIER", "quick"))
    ap.add_argument("--seed", type=int, default=int(os.environ.get("VERIF_SEED", "20261003")))
    a = ap.parse_args(argv)
    if a.tier not in ("quick", "thorough"):
        a.tier = "quick"
    if a.what == "setup":
        return run_setup()
    if a.what == "replay":
        return run_replay(a.arg)
    if a.what == "selftest":
        from . import selftest
        return selftest.main(a)
    if a.what == "extra":
        rc = 0
        for g in sorted(os.path.basename(p)[:-3].upper() for p in glob.glob(os.path.join(os.path.dirname(__file__), "growth", "g*.py"))):
            rc = max(rc, run_check(g, a.tier, a.seed))
        return rc
    if a.what == "benign":
        from . import benign
        return benign.main(a)
    if a.what == "all":
        rc = 0
        with open(os.path.join(core.VERIF, "MANIFEST.json")) as f:
            man = json.load(f)
        for c in man["checks"]:
            rc = max(rc, run_check(c["property_id"], a.tier, a.seed))
        return rc
    return run_check(a.what.upper(), a.tier, a.seed)


if __name__ == "__main__":
    sys.exit(main())
