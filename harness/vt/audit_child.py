"""Harness-owned child process for C20: runs gffutils.create_db (or a full read) while reporting every touch of the shared
temporary directory at the OS-API boundary (sys.addaudithook) and, when gated, waiting for the scheduler before each one."""
import hashlib
import json
import os
import sys


def main():
    mode, inp, out, tmpdir, efd, cfd, gated = sys.argv[1], sys.argv[2], sys.argv[3], sys.argv[4], int(sys.argv[5]), int(sys.argv[6]), sys.argv[7] == "1"
    tmpdir = os.path.realpath(tmpdir)

    finished = [False]

    def emit(ev, name, rel=None):
        if finished[0]:
            return              # the run is over (create_db returned): whatever the interpreter does on its way out is not scheduled any more
        os.write(efd, (json.dumps({"ev": ev, "name": name, "path": rel or name}) + "\n").encode())
        if ev == "done":
            finished[0] = True
        elif gated:
            os.read(cfd, 1)

    def entry(path):
        """(top-level entry of the shared directory, path relative to it) for a path at any depth below the directory, else None.
        The unit of the model is the directory ENTRY: a private sub-directory of the importer is one entry, the files in it are its content."""
        if isinstance(path, bytes):
            try:
                path = os.fsdecode(path)
            except Exception:  # noqa
                return None
        if not isinstance(path, str):
            return None
        rp = os.path.realpath(path)
        if not rp.startswith(tmpdir + os.sep):
            return None
        rel = rp[len(tmpdir) + 1:]
        return rel.split(os.sep)[0], rel

    def hook(event, args):
        if event in ("tempfile.mkstemp", "os.mkdir"):      # (tempfile.mkdtemp announces itself and then calls os.mkdir: one event)
            e = entry(args[0])
            if e and e[0] == e[1]:
                emit("mk", e[0])
        elif event == "open":
            path, mode_, flags = args[0], args[1], args[2] or 0
            e = entry(path)
            if e and not os.path.isdir(path):           # (rmtree opens the directory itself to scan it: not a read of intermediate data)
                if flags & os.O_EXCL and e[0] == e[1]:
                    return          # the creation that belongs to mkstemp itself
                writing = (mode_ is not None and any(c in str(mode_) for c in "wa+x")) or (flags & (os.O_WRONLY | os.O_RDWR))
                emit("wr" if writing else "rd", e[0], e[1])
        elif event in ("os.remove", "os.unlink", "os.rmdir"):
            e = entry(args[0])
            if e and e[0] == e[1]:       # removals INSIDE a private sub-directory change its content, not the shared directory's entries
                emit("rm", e[0])

    import warnings
    import io
    import contextlib
    import gffutils
    import tempfile
    tempfile.gettempdir()      # Python probes the directory (creates and removes a file) on first use: not an event of the import
    sys.addaudithook(hook)
    with contextlib.redirect_stderr(io.StringIO()), warnings.catch_warnings():
        warnings.simplefilter("ignore")
        if mode == "import":
            db = gffutils.create_db(inp, out, force=True, merge_strategy="create_unique")
            db.conn.close()
            emit("done", "")
        else:   # reader: observe the full content of a finished database
            db = gffutils.FeatureDB(inp)
            h = hashlib.sha1()
            n = 0
            for f in db.all_features():
                h.update(str(f).encode())
                h.update(b"\n")
                n += 1
            for row in db.conn.execute("SELECT parent, child, level FROM relations ORDER BY parent, child, level"):
                h.update(repr(tuple(row)).encode())
            os.write(efd, (json.dumps({"ev": "read", "n": n, "digest": h.hexdigest()}) + "\n").encode())


if __name__ == "__main__":
    main()
