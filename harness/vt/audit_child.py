"""Harness-owned child process for C20: runs gffutils.create_db (or a full read) while reporting every touch of the shared
temporary directory at the OS-API boundary (sys.addaudithook) and, when gated, waiting for the scheduler before each one."""
import hashlib
import json
import os
import sys


def main():
    mode, inp, out, tmpdir, efd, cfd, gated = sys.argv[1], sys.argv[2], sys.argv[3], sys.argv[4], int(sys.argv[5]), int(sys.argv[6]), sys.argv[7] == "1"
    tmpdir = os.path.realpath(tmpdir)

    def emit(ev, name):
        os.write(efd, (json.dumps({"ev": ev, "name": name}) + "\n").encode())
        if gated and ev != "done":
            os.read(cfd, 1)

    def inside(path):
        return isinstance(path, str) and os.path.dirname(os.path.realpath(path)) == tmpdir

    def hook(event, args):
        if event == "tempfile.mkstemp":
            if inside(args[0]):
                emit("mk", os.path.basename(args[0]))
        elif event == "open":
            path, mode_, flags = args[0], args[1], args[2] or 0
            if inside(path):
                if flags & os.O_EXCL:
                    return          # the creation that belongs to mkstemp itself
                writing = (mode_ is not None and any(c in str(mode_) for c in "wa+x")) or (flags & (os.O_WRONLY | os.O_RDWR))
                emit("wr" if writing else "rd", os.path.basename(path))
        elif event in ("os.remove", "os.unlink"):
            if inside(args[0]):
                emit("rm", os.path.basename(args[0]))

    import warnings
    import io
    import contextlib
    import gffutils
    import tempfile
    tempfile.gettempdir()      # Python probes the directory (creates and removes a file) on first use: not an event of the import
    sys.addaudithook(hook)
    with contextlib.redirect_stderr(io.StringIO()), warnings.catch_warnings():
        warnings.simplefilter("ignore")
        if mode == "import":
            db = gffutils.create_db(inp, out, force=True, merge_strategy="create_unique")
            db.conn.close()
            emit("done", "")
        else:   # reader: observe the full content of a finished database
            db = gffutils.FeatureDB(inp)
            h = hashlib.sha1()
            n = 0
            for f in db.all_features():
                h.update(str(f).encode())
                h.update(b"\n")
                n += 1
            for row in db.conn.execute("SELECT parent, child, level FROM relations ORDER BY parent, child, level"):
                h.update(repr(tuple(row)).encode())
            os.write(efd, (json.dumps({"ev": "read", "n": n, "digest": h.hexdigest()}) + "\n").encode())


if __name__ == "__main__":
    main()
