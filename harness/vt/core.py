"""Shared machinery: run TLC / Apalache, collect counts, write evidence and replays.

The Python side contains no oracle.  It (a) asks TLC for cases + expected
observations, (b) drives the real code, (c) projects real objects to JSON and
(d) either compares JSON for equality with what TLC printed, or hands the
recorded observations back to TLC (trace specifications) for judgement.
"""
import hashlib
import json
import os
import random
import re
import shutil
import subprocess
import sys
import tempfile
import time

VERIF = os.path.dirname(os.path.dirname(os.path.dirname(os.path.abspath(__file__))))
SPEC = os.path.join(VERIF, "spec")
REPO = os.environ.get("VERIF_REPO", "/repo")
TLA_JAR = "/opt/veriftools/tla/tla2tools.jar"
TLA_CP = TLA_JAR + ":/opt/veriftools/tla/CommunityModules-deps.jar"


class CannotReplay(Exception):
    """the replay file does not carry an executable case (e.g. a violation of the model itself): re-run the check instead"""


class MachineryError(Exception):
    """Something in the verification machinery itself failed (exit status 2)."""


def enc(s):
    """text -> list of code points (the specification's representation of text).  Something that is not text where text belongs (a key that is
    None, a number) is an OBSERVATION, not a failure of the machinery: it is rendered as a marker text no expectation contains."""
    if not isinstance(s, str):
        s = "<not text: %r>" % (s,)
    return [ord(c) for c in s]


def dec(cps):
    return "".join(chr(c) for c in cps)


def canon(x):
    return json.dumps(x, sort_keys=True, separators=(",", ":"), ensure_ascii=True)


class TLCRun(object):
    def __init__(self):
        self.out = ""
        self.generated = 0
        self.distinct = 0
        self.json = []
        self.ok = False
        self.violated = None  # name of violated invariant / property, or "error"
        self.wall = 0.0
        self.cmd = ""
        self.coverage = {}


_JSON_LINE = re.compile(r'^"(\{.*\}|\[.*\])"$')


def parse_tlc_output(text, run):
    m = None
    for m in re.finditer(r"(\d+) states generated, (\d+) distinct states found", text):
        pass
    if m:
        run.generated = int(m.group(1))
        run.distinct = int(m.group(2))
    for line in text.splitlines():
        if line.startswith('"{') or line.startswith('"['):
            if not _JSON_LINE.match(line):
                raise MachineryError("interleaved / truncated PrintT line: %r" % line[:200])
            try:
                run.json.append(json.loads(json.loads(line)))
            except ValueError as e:
                raise MachineryError("cannot decode PrintT line %r: %s" % (line[:200], e))
    m = re.search(r"Error: Invariant (\S+) is violated", text)
    if m:
        run.violated = m.group(1)
    elif re.search(r"Error: Action property (\S+) is violated", text):
        run.violated = re.search(r"Error: Action property (\S+) is violated", text).group(1)
    elif "Temporal properties were violated" in text:
        run.violated = "temporal"
    elif re.search(r"^Error: ", text, re.M):
        run.violated = "error"
    # with -simulate TLC is stopped by its own num= bound and still "finishes"
    run.ok = run.violated is None and (
        "Model checking completed. No error has been found" in text
        or "Finished in" in text and "Error" not in text
        or "Finished computing initial states" in text and "Error:" not in text
    )
    # per-action coverage (-coverage 1):  <Action line ... of module M>: distinct:generated
    for cm in re.finditer(r"^<(\w+) line \d+, col \d+ to line \d+, col \d+ of module (\w+)>: (\d+):(\d+)", text, re.M):
        run.coverage[cm.group(2) + "!" + cm.group(1)] = [int(cm.group(3)), int(cm.group(4))]
    return run


class Ctx(object):
    def __init__(self, prop, tier, seed):
        self.prop = prop
        self.tier = tier
        self.seed = seed
        self.rng = random.Random(seed)
        self.t0 = time.time()
        # scratch databases are fsync-heavy: prefer the memory-backed tmpfs when there is one
        base = "/dev/shm" if os.path.isdir("/dev/shm") and os.access("/dev/shm", os.W_OK) else None
        self.scratch = tempfile.mkdtemp(prefix="vt_%s_" % prop, dir=base)
        self.states = 0
        self.transitions = 0
        self.traces = 0
        self.evaluations = 0
        self.nontrivial = set()
        self.samples = []
        self.tlc_runs = []
        self.violations = []
        self.known_printed = {}
        self.assumptions = []
        self.extra = {}
        self.exhaustive = False
        self.rule = ""
        self._n = 0

    # ------------------------------------------------------------------ paths
    def path(self, name):
        return os.path.join(self.scratch, name)

    def cleanup(self):
        shutil.rmtree(self.scratch, ignore_errors=True)

    # ------------------------------------------------------------------- TLC
    def tlc(self, module, cfg, workers=16, env=None, timeout=900, simulate=None,
            coverage=False, expect=None, depth=None, label=None, extra=None, dfs=False):
        """Run TLC on spec/<module>.tla with the given cfg text.

        expect=None  : TLC must finish without error, else MachineryError / violation is
                       up to the caller (run.violated is set, run.ok False).
        """
        self._n += 1
        tag = "%s_%d" % (module, self._n)
        if "WordNA <- WordNAFromFile" in cfg and env:
            # a substituted constant is re-evaluated at every use (each time re-reading the JSON file): inline the side table as a literal
            src = env.get("SEED_FILE") or env.get("TRACE_FILE")
            with open(src) as f:
                wna = json.load(f).get("wordna", [])
            cfg = cfg.replace("CONSTANT WordNA <- WordNAFromFile", "CONSTANT WordNA = {%s}" % ", ".join(str(int(x)) for x in wna))
        cfgp = self.path(tag + ".cfg")
        with open(cfgp, "w") as f:
            f.write(cfg)
        meta = self.path("meta_" + tag)
        java = ["java", "-XX:+UseParallelGC", "-Xss16m"]
        if dfs:
            java.append("-Dtlc2.tool.queue.IStateQueue=StateDeque")
        cmd = java + ["-cp", TLA_CP, "tlc2.TLC", "-workers", str(workers), "-metadir", meta,
                      "-noGenerateSpecTE", "-config", cfgp]
        if coverage:
            cmd += ["-coverage", "1"]
        if simulate:
            cmd += ["-simulate", simulate]
        if depth:
            cmd += ["-depth", str(depth)]
        if extra:
            cmd += list(extra)
        cmd += [module + ".tla"]
        e = dict(os.environ)
        if env:
            e.update({k: str(v) for k, v in env.items()})
        run = TLCRun()
        run.cmd = " ".join(cmd)
        t = time.time()
        try:
            p = subprocess.run(cmd, cwd=SPEC, env=e, stdout=subprocess.PIPE, stderr=subprocess.STDOUT,
                               timeout=timeout)
            run.out = p.stdout.decode("utf-8", "replace")
        except subprocess.TimeoutExpired as ex:
            run.out = (ex.stdout or b"").decode("utf-8", "replace")
            subprocess.run(["pkill", "-f", meta], check=False)
            raise MachineryError("TLC timed out after %ss on %s" % (timeout, module))
        finally:
            shutil.rmtree(meta, ignore_errors=True)
        run.wall = time.time() - t
        parse_tlc_output(run.out, run)
        self.states += run.distinct
        self.transitions += run.generated
        self.tlc_runs.append({"module": module, "label": label or "", "distinct": run.distinct,
                              "generated": run.generated, "wall_s": round(run.wall, 2),
                              "workers": workers, "violated": run.violated})
        if expect is None and not run.ok and run.violated in (None, "error"):
            logp = self.keep_log(tag, run.out)
            raise MachineryError("TLC failed on %s (see %s):\n%s" % (module, logp, _tail(run.out)))
        return run

    def keep_log(self, tag, text):
        d = os.path.join(os.environ.get("VERIF_REPLAY_DIR") or os.path.join(VERIF, "replays"), self.prop)
        os.makedirs(d, exist_ok=True)
        p = os.path.join(d, "tlc_%s.log" % tag)
        with open(p, "w") as f:
            f.write("\n".join(l for l in text.splitlines() if not l.startswith('"'))[-200000:])
        return p

    def apalache(self, module, inv, init="Init", next_="Next", length=0, timeout=600, expect_ok=True):
        out = self.path("apa_%s_%s" % (module, inv))
        cmd = ["apalache-mc", "check", "--init=" + init, "--next=" + next_, "--inv=" + inv,
               "--length=%d" % length, "--out-dir=" + out, module + ".tla"]
        t = time.time()
        try:
            p = subprocess.run(cmd, cwd=SPEC, stdout=subprocess.PIPE, stderr=subprocess.STDOUT, timeout=timeout)
        except subprocess.TimeoutExpired:
            return {"inv": inv, "result": "timeout", "wall_s": timeout}
        finally:
            shutil.rmtree(out, ignore_errors=True)
        txt = p.stdout.decode("utf-8", "replace")
        if "The outcome is: NoError" in txt:
            res = "NoError"
        elif "The outcome is: Error" in txt or "violat" in txt:
            res = "Error"
        else:
            res = "failed"
        r = {"inv": inv, "module": module, "result": res, "wall_s": round(time.time() - t, 1)}
        if res == "failed":
            r["log"] = self.keep_log("apa_%s_%s" % (module, inv), txt)
        return r

    # ------------------------------------------------------------- bookkeeping
    def count(self, case, nontrivial, n=1):
        self.evaluations += n
        if nontrivial:
            self.nontrivial.add(hashlib.sha1(canon(case).encode()).digest()[:10])

    def sample(self, case, limit=4):
        if len(self.samples) < limit:
            self.samples.append(case)

    def violation(self, case, clause, detail=None):
        """Record a violation: write a replay file, print the VIOLATION line."""
        rec = {"property": self.prop, "clause": clause, "case": case, "detail": detail,
               "seed": self.seed, "tier": self.tier}
        h = hashlib.sha1(canon(rec["case"]).encode() + clause.encode()).hexdigest()[:16]
        d = os.path.join(os.environ.get("VERIF_REPLAY_DIR") or os.path.join(VERIF, "replays"), self.prop)
        os.makedirs(d, exist_ok=True)
        p = os.path.join(d, h + ".json")
        if len(self.violations) < 40:          # later ones are counted, not written
            with open(p, "w") as f:
                json.dump(rec, f, indent=1, sort_keys=True)
        if len(self.violations) < 25:
            print("VIOLATION property=%s replay=%s clause=%s" % (self.prop, p, clause))
            sys.stdout.flush()
        self.violations.append({"clause": clause, "replay": p})
        return p

    def known_finding(self, name, what):
        if name not in self.known_printed:
            print("KNOWN-FINDING: property=%s %s: %s" % (self.prop, name, what))
            self.known_printed[name] = 0
        self.known_printed[name] += 1

    # --------------------------------------------------------------- evidence
    def write_evidence(self, machinery_error=None):
        cov = {
            "states": int(self.states),
            "transitions": int(self.transitions),
            "traces_validated_against_impl": int(self.traces),
            "samples": self.samples[:6] if self.samples else [],
            "evaluations": int(self.evaluations),
            "distinct_nontrivial": len(self.nontrivial),
            "rule": self.rule,
            "exhaustive": bool(self.exhaustive),
            "tlc_runs": self.tlc_runs,
            "known_findings_printed": self.known_printed,
        }
        cov.update(self.extra)
        ev = {
            "property_id": self.prop,
            "tier": self.tier,
            "seed": int(self.seed),
            "level": "model_checking",
            "coverage": cov,
            "assumptions": self.assumptions,
            "wall_s": round(time.time() - self.t0, 2),
            "violations": len(self.violations),
        }
        if machinery_error:
            ev["coverage"]["machinery_error"] = str(machinery_error)[:2000]
        d = os.environ.get("VERIF_EVIDENCE_DIR") or os.path.join(VERIF, "evidence")
        if self.prop.upper().startswith("G"):       # growth checks are not listed properties: their reports live beside, not among, the evidence files
            d = os.path.join(os.path.dirname(d), "growth_evidence") if not os.environ.get("VERIF_EVIDENCE_DIR") else os.path.join(d, "growth")
        os.makedirs(d, exist_ok=True)
        with open(os.path.join(d, self.prop + ".json"), "w") as f:
            json.dump(ev, f, indent=1, sort_keys=True)
            f.write("\n")


def _tail(s, n=40):
    return "\n".join(s.splitlines()[-n:])


def load_findings():
    p = os.path.join(VERIF, "known_findings.json")
    if not os.path.exists(p):
        return []
    with open(p) as f:
        return json.load(f)["findings"]


def known_names(prop):
    return sorted(f["name"] for f in load_findings() if f["property"] == prop and f["status"] == "known")


def assert_repo():
    """The code under test must be the tree we were pointed at."""
    import gffutils
    here = os.path.realpath(os.path.dirname(gffutils.__file__))
    want = os.path.realpath(os.path.join(REPO, "gffutils"))
    if here != want:
        raise MachineryError("gffutils imported from %s, expected %s" % (here, want))


def _freeze():
    # the forked worker inherits the parent's (large) heap: keep the collector away from it
    import gc
    gc.freeze()


def pmap(func, items, procs=16, chunksize=None):
    """Run func over items in worker processes (fork), keeping order."""
    import multiprocessing as mp
    if len(items) < 64 or procs <= 1:
        return [func(i) for i in items]
    ctx = mp.get_context("fork")
    with ctx.Pool(procs, initializer=_freeze) as pool:
        return pool.map(func, items, chunksize or max(1, len(items) // (procs * 8)))
