CHECKS = {}   # id -> dict(text, note, technique, engine, design)
NOT_YET = {}  # id -> reason


def check(pid, text, note, technique, engine="tlc", design=None):
    CHECKS[pid] = dict(text=text, note=note, technique=technique, engine=engine, design=design or "DESIGN.md section 5 (%s)" % pid)

TB = ("Trusted: TLC/SANY (and Apalache where named), the JSON<->TLA+ value mapping, the projection code in harness/vt "
      "(no oracle: it drives the API and projects objects), CPython/sqlite3 of /venv, and that the declarative layer "
      "of the module is a faithful reading of the property text. ")

check("C12",
      "Bins.tla transcribes bins.bins (algorithmic layer) and states the property from bin extents (declarative layer). "
      "Apalache proves containment, tightness, set completeness/nearness, the out-of-range rule and the index lemma "
      "(single bin of one interval is in the bin set of any overlapping interval) for ALL coordinates -4..2^29+4; TLC checks the same "
      "invariants exhaustively on every pair of boundary coordinates and generates them as cases. Every case and 2*10^4 (quick) / 2*10^5 "
      "(thorough) random pairs are executed on the code (bins.bins both forms, Feature.bin, stored bin column) and judged by Trace_Bins.",
      TB + "TLC integers are 32-bit, so coordinates stay below 2^31.",
      "TLA+ spec (Bins/BinsX) + Apalache lemmas for all coordinates + TLC boundary enumeration + trace validation of real calls (Trace_Bins)",
      engine="tlc+apalache")

check("C06",
      "RegionI/Region.tla transcribe the SQL predicates of FeatureDB.region and helpers.make_query(limit=) including the bin pre-filter and its guards "
      "(algorithmic layer, on top of Bins) and state C06 as interval arithmetic with must/may sets for one-sided bounds (declarative layer). "
      "Apalache proves soundness and completeness of the algorithm, i.e. that the index can never drop a feature, for ALL coordinates up to 2^29+2^20; "
      "TLC checks the same pointwise on boundary coordinates. Real databases (all pairs of boundary coordinates; random ones) are queried through every "
      "API form and every returned id list is judged by Trace_Region against the declarative layer (dup / missing / extra).",
      TB + "Features without coordinates are outside the domain; coordinates < 2^31.",
      "TLA+ spec (RegionI/Region on Bins) + Apalache soundness/completeness lemmas + TLC pointwise check + trace validation of real queries (Trace_Region)",
      engine="tlc+apalache")

check("C07",
      "AttrSyntax.tla transcribes parser._split_keyvals (inference path), _reconstruct, the Quoter/unquote pair and feature_from_line/str(Feature) at "
      "character level; AttrGrammar.tla defines the grammar of 'one consistent dialect' as the image of Render under eight side conditions and TLC proves "
      "InGrammar => RoundTrip, InfersDialect, LineRoundTrip, LooseEqual on 34k (attributes, dialect) pairs. Every pair is rendered by the spec into a full line "
      "and parsed/printed by the code (JSON equality with the spec's record); seeded random mappings with Unicode are rendered and classified by Gen_Attr; "
      "attribute columns of the repository's data files are judged by Trace_Attr. The binding of Infer to the code additionally rests on C08's exhaustive "
      "string enumeration.",
      TB + "Coordinates are '.' or canonical decimals; known finding Dev_FirstPartDecidesStyle (leading valueless flag in key=value style).",
      "TLA+ character-level spec (AttrSyntax/AttrGrammar) + TLC round-trip theorems over the grammar + spec-generated lines replayed on the code + trace validation of data-file lines")

check("C08",
      "(b) TLC evaluates the transcriptions Infer and ParseWith (three supplied dialects) on EVERY string of length <= 4 (quick) / 5 (thorough) over the structural "
      "alphabet - totality of the design by evaluation plus the type invariant - and the real parser is run on every one of those strings (no raise, lists of "
      "strings; equality with the model is recorded as drift). (a) MC_Lossless proves ParseWith(Render(a,d),d) = a over 20 character classes x every GFF3-/GTF-style "
      "dialect dictionary except the single named deviation, and that the deviation always loses; every pair and a class-instantiated twin are printed and re-parsed "
      "by the code. Random mappings are classified by Gen_Attr, random Unicode strings judged by Trace_Attr (includes the UTF-8 'replace' decoder of unquote).",
      TB + "Members of a character class are assumed to behave alike (instantiated by seed). Known finding Dev_UnquotedGtfStripsEdgeBlanks.",
      "TLA+ character-level spec + exhaustive string enumeration evaluated by TLC and replayed on the parser + TLC lossless theorem over character classes + trace validation (Trace_Attr)")

check("C09",
      "Dialect.tla transcribes helpers._choose_dialect (count table in first-seen order, stable descending sort) and states the rule declaratively (weighted majority, "
      "ties to the value seen first, first-seen key order, window = checklines+1 items); TLC checks Choose_Alg against Choose_Decl for every window of <= 3 (quick) / 4 "
      "(thorough) lines over a 12-string menu x every checklines, and prints each case. The code is observed through DataIterator.dialect, create_db().dialect, "
      "FeatureDB(path).dialect, helpers.infer_dialect and the importer actually used; consistent random files (Gen_Attr, in-grammar) must report Observable(d); "
      "supplied dialects must be reported verbatim.",
      TB + "Importer routing is observed through a GTF marker line beyond the window.",
      "TLA+ spec (Dialect on AttrSyntax) + TLC alg-vs-decl check over all small windows + spec-generated windows replayed on the code (JSON equality)")

check("C02",
      "GffDB.tla models the importer as a fold of ImportLine (DeriveId -> Insert | Collide -> level-1 links) followed by CloseLevel2, and states C02 declaratively "
      "(Rel1/Rel2 of the Parent graph of what is stored). TLC checks rels = Rel1 u Rel2, inverse parents/children, no self relative, no phantom, level semantics for "
      "every Parent graph on 4 features x every permutation of the lines (order independence is a checked theorem) and prints each file with the expected relation "
      "table and every children/parents answer. Each file is imported by the code and all answers compared; random forests up to 60 features go through the same "
      "model (Gen_DB) and are compared row by row.",
      TB, "TLA+ state-machine spec (GffDB) + TLC exhaustive graphs x line orders + spec-generated files replayed on the code + model trajectories for random forests (Gen_DB)")

check("C04",
      "GffDB!DeriveId/TryItems transcribe create.py _id_handler for every id_spec form (string, list, dict of string/list, ':field:', callables from a fixed menu, "
      "fall-through to the per-featuretype counter) and MC_DB04 checks the declarative reading - keys unique, first listed attribute present with a value, "
      "'<featuretype>_<n>' numbering per type in input order, multi-valued id attribute rejected, persisted counters - for 1..2 (quick) / 3 (thorough) features x 13 "
      "spec forms. Every printed case is imported from Feature objects and compared row by row (keys, attributes, counters), db[key], db[feature] and absent keys are "
      "probed; random feature lists x 7 more specs run through the model (Gen_DB).",
      TB + "Callables come from a fixed menu mirrored in Python.",
      "TLA+ state-machine spec (GffDB) + TLC invariants over features x id_spec forms + spec-generated cases replayed on the code + model trajectories for random inputs")

check("C05",
      "GffDB!Collide transcribes _do_merge/_candidate_merges/_add_duplicate and the relation insertion that follows; MC_DB05 restates each strategy declaratively from "
      "the ARRIVALS (classes of equal non-exempt columns in order of first arrival, unions as sets, comma-joined sets for exempt columns, links = Parent values of what "
      "is kept, at-most-one-candidate lemma) and TLC checks the algorithm against it for every sequence of <= 3 colliding features x 5 strategies x force_merge_fields x "
      "split between create_db and update (180k-270k states). Each named deviation is model-checked switched on and must break its invariant. One case in 19 (quick) / 3 "
      "(thorough) and random longer histories on file databases are executed on the code and compared row by row; mismatches are judged a second time with the known "
      "deviation F4 enabled.",
      TB + "Attribute values/keys of merged features are compared as sets. Known finding F4_ReplaceKeepsStaleLinks.",
      "TLA+ state-machine spec (GffDB) + TLC alg-vs-decl invariants per strategy + deviation actions for known findings + model trajectories compared with real databases")

check("C10",
      "MC_DB10 is the database as a TLA+ state machine: one action per public call (update x 5 batches x 5 strategies x backup, empty update, update whose source "
      "fails at item 0/1, delete of each stored id, add_relation with/without child rewrite, reopen) from three initial files, variables db / live counters / .bak "
      "content / handed-out keys. TLC explores all histories to depth 3 (quick) / 4 (thorough, 186k states, 1.27M transitions) checking InvKeys, InvCountersCover and the "
      "action properties NoRecycle, Level2Sound, DeleteExact, EmptyIdentity, UpdateMonotone, BackupIsPreState, ReadsDontTouch; the F6 deviation must break Level2Sound. "
      "Behaviours (all of length 2, seeded -simulate of length 7) are executed on real file databases; after EVERY call the file and its .bak are projected through "
      "fresh connections and compared with the snapshots; mismatches get a second judgement with the known deviation.",
      TB + "After a failing source only the backup is asserted; a raising add_relation ends the history. Known finding F4_ReplaceKeepsStaleLinks.",
      "TLA+ state machine (MC_DB10 on GffDB) + TLC invariants/action properties over all short histories + spec-generated behaviours replayed step by step on real file databases")

check("C19",
      "MC_Files models the file system as path -> database content | Absent with create_db(path, source, force, merge_strategy), FeatureDB(path) and 14 read-style call "
      "patterns as actions; TLC checks the action properties ReadsDontWrite ([][isRead => files' = files]), NoClobber and ForceFresh over all histories to depth 4/5 and "
      "prints every behaviour of length 3. Each behaviour runs on real files: sqlite3 statement trace on the handle's connection during reads (only SELECT/PRAGMA), "
      "total_changes, open-transaction flag, and the logical content (all six tables through a fresh connection) plus sha256 of BOTH files before/after every call. "
      "Random read sequences run on databases built from the repository's data files.",
      TB + "Exceptions raised by a read call itself are not judged here.",
      "TLA+ state machine (MC_Files) + TLC action properties + spec-generated behaviours replayed on real files with SQL statement tracing and before/after snapshots")

check("C03",
      "GffDB models the GTF importer line by line (transcript key -> level 1, gene key -> level 2 and gene->transcript level 1, never self) and InferGTF (pairs of level-1 "
      "parents of subfeatures and their own parent, MIN/MAX extents over subfeature children, one gene per id, collision of a derived feature through Collide('merge') "
      "with the UPDATE-only quirk, flags). MC_DB03 restates C03 from the LINES (one feature per transcript/gene id with the exact extent or the explicit line, levels, "
      "flags suppress exactly the derived set, no self relation, nothing else stored) for every ordered selection of <= 4 (quick) / 5 (thorough) of 9 menu lines x 5 "
      "variants. Every file is imported by the code and compared on ids, types, seqid, strand, extents, relation rows, db[id] and children(level).",
      TB + "Lines carry both keys; only the columns the statement names are compared for derived features.",
      "TLA+ state-machine spec (GffDB GTF path) + TLC declarative invariants over ordered line selections x flags + spec-generated files replayed on the code")

check("C11",
      "Select.tla states C11 declaratively (duplicate-free enumeration of the matching set, sorted by the lexicographic key over the requested columns in code-point / "
      "numeric order, 'length' = end - start, 'file_order' = rowid, DESC for a single column with reverse, input order without order_by and filter) and records what the "
      "SQL promises in addition (algorithmic layer, drift only). MC_Select shows on all 3-feature databases that a stable SQL-key sort is accepted and a swap of "
      "differently-keyed neighbours is rejected. Random databases (mixed-case / non-ASCII / numeric-looking seqids and scores, ties) are queried through all_features "
      "and features_of_type with every filter and order_by form; counts, featuretypes(), seqids(); each answer is judged by Trace_Select.",
      TB + "Coordinates are present; 'attributes'/'extra' are not ordered on.",
      "TLA+ declarative spec (Select) + TLC accept/reject lemma for the judge + trace validation of real query results (Trace_Select)")

check("C13",
      "Source.tla models the input side: line classification, peek (checklines+1 items; one-shot sources get them chained back), transform/skip, inspect(). TLC checks "
      "Out_Alg = Out_Decl (no loss, duplicate or reorder) for every form, transform and drop set over all item sequences of <= 5 (quick) / 6 (thorough) lines x every "
      "checklines, and prints each case with the expected feature sequence and inspect() tallies. Each case is supplied to the code in all seven forms (path, gzip, "
      "from_string, list, generator, DataIterator, FeatureDB): iterated sequence, create_db content, transforms that record their calls, inspect() for 4 look_for "
      "subsets x limit.",
      TB + "URL input is not run (no network).",
      "TLA+ spec (Source) + TLC alg-vs-decl invariants over all short files x checklines + spec-generated cases replayed in seven input forms")

check("C14",
      "Source.tla: Scan classifies lines (## directive, # comment, blank, ##FASTA / > cut), Directives_Decl is the statement, DirsSeenByPeek what a generator abandoned after "
      "checklines+1 features has recorded, DbDirectives_Alg what reaches the database. TLC checks InvDirectives, InvNothingAfterFasta and that the F9 deviation loses exactly "
      "the directives beyond the window, for every sequence of <= 5/6 lines over 8 line kinds x every checklines. Each file is read as path and from_string: "
      "DataIterator.directives after iteration, create_db().directives, FeatureDB(path).directives, iterated and stored features; long files with directives far beyond "
      "the window in addition.",
      TB + "Blank lines are empty lines.",
      "TLA+ spec (Source) + TLC invariants over all short files x checklines + spec-generated files replayed through iterator, importer and reopen")

check("C17",
      "AttrStore.tla models the Attributes container (list wrapping on set, view switch on get, update, delete, JSON identity), merge_attributes in two layers "
      "(per-key sorted duplicate-free union vs copy/overwrite/extend/sorted(set) with the float tie rule) and Feature equality through the printed line. TLC checks "
      "InvSeqs, InvSwitch, InvKeysOnce over every operation sequence of length 3 (quick) / 4 (thorough) and Merge_Alg = Merge_Decl over all menu pairs; every behaviour is "
      "replayed on a parsed Feature and on a Feature from a database (view, stored form, JSON identity after each step); merge cases and random pairs run as dicts and "
      "as Attributes under both switch settings with argument non-mutation; == / hash are checked on all pairs of 40 parsed lines.",
      TB + "Non-finite numeric strings are outside numeric_sort's domain.",
      "TLA+ state machine (MC_AttrStore on AttrStore) + TLC invariants / alg-vs-decl + spec-generated behaviours and merge cases replayed on the code")

check("C15",
      "Intervals.tla: Inter_Alg transcribes the running pairwise construction of FeatureDB.interfeatures (re-used dictionary, seqid change, empty-gap suppression), Inter_Decl "
      "states C15 as a comprehension over consecutive pairs; Introns_Decl / Splice_Decl build on the import model's Children. TLC checks Inter_Alg = Inter_Decl and the N-1 law "
      "for every ordered list of <= 3 (quick) / 4 (thorough) intervals over 6 positions x 7 seqid/strand/type patterns x 4 option sets (234k states quick); one case in 7/3 is "
      "replayed through interfeatures (geometry, type, strand, per-key sorted attribute union with numeric sort, joined IDs, update_attributes, inputs and database unchanged); "
      "random gene models go through create_introns / create_splice_sites against the spec (Gen_Intervals).",
      TB + "Only the columns and attributes the statement names are compared; transcripts are visited in unspecified order (multiset comparison).",
      "TLA+ spec (Intervals) + TLC alg-vs-decl over all short interval lists + spec-generated cases replayed on the code + model-computed introns/splice sites for random gene models")

check("C16",
      "Intervals.tla transcribes FeatureDB.merge as a fold (MergeStep: seed check, unchecked-last-feature branch, copy-on-first-merge with a fresh id from the live counters, "
      "Absorb) over the ten shipped criteria, and states C16 declaratively: PartitionOK (each input a child of exactly one output or yielded itself, consecutive runs, min/max "
      "extents, distinct ids), UnionLemma (default criteria on grouped start-ordered input = connected components of overlapping-or-adjacent, computed as a closure), merged "
      "size = size of the union. TLC checks them for every list of <= 3/4 intervals x 6 patterns x 8 criteria sets (467k states quick). One case in 11/5 is replayed through "
      "merge() three times on the SAME objects (same criteria twice, then default criteria); children_bp and merge_all (relate / exclude_components) run on random gene "
      "models and are compared with the model row by row.",
      TB + "Merged features are compared on the columns the statement names; ids for distinctness.",
      "TLA+ spec (Intervals) + TLC partition/union lemmas over all short interval lists x criteria + spec-generated cases replayed (repeatedly, on the same objects) + model-computed merge_all databases")

check("C18",
      "Intervals.tla: LenOf, SeqOf (1-based inclusive slice, reverse complement), Bed12_Alg (field assembly incl. the span checks and thick/thin rules) and Bed12_Decl (the "
      "statement's constraints on the twelve fields). MC_Bed checks Bed12_Alg against Bed12_Decl for every transcript over 6 positions with 0-2 blocks and 0-1 thick feature "
      "and the sequence laws on a 12-base reference. Random gene models (incl. transcripts without exon children and ones whose blocks do not span) are run through bed12(id), "
      "bed12(Feature), convert.to_bed12, len() and Feature.sequence() via a generated FASTA file and pyfaidx, against the model's values (Gen_Intervals).",
      TB + "pyfaidx is exercised, not modelled.",
      "TLA+ spec (Intervals) + TLC alg-vs-decl for BED12 and sequence laws + model-computed expectations for random gene models replayed on the code")

check("C20",
      "Concurrent.tla models N importer processes sharing one temporary directory (name -> owner, data) with one action per shared-directory step (Mk atomic fresh name, Wr, Rd, "
      "Rm; Populate/Ins private); TLC explores ALL interleavings of 2 and 3 processes for Isolation, OwnFileOnly, DistinctNames, Cleanup, SolitaryResult, shows that fixed / "
      "per-kind names break them, and prints every order of the shared steps (70 schedules for two processes, sampled for three). Real OS processes (GFF3 and GTF inputs) are "
      "driven through each schedule by a scheduler built on sys.addaudithook (tempfile.mkstemp / open / os.remove at the OS-API boundary, one process released at a time); every "
      "event with the directory listing and the content read back is validated by Trace_Concurrent (enabledness, listing = model directory, invariants after every step) and "
      "every output database is compared with a solitary run. Free-running bursts up to 24/48 processes and concurrent readers of one finished file are judged per process.",
      TB + "CPython audit events are the observation points; schedules beyond three processes are sampled by free-running bursts.",
      "TLA+ spec (Concurrent) + TLC over all interleavings + TLC-generated schedules imposed on real processes + trace validation (Trace_Concurrent)")

check("C01",
      "ImportModel.tla composes the other modules into the whole pipeline: window -> per-line Infer -> Choose -> ParseWith(D) per line -> GffDB!Create -> PrintAll with the "
      "stored dialect, and defines Consistent(file) declaratively (every line in the C07 grammar under one dialect d, the window's vote recovers everything the file exhibits of "
      "d, every line's keys compatible with the first-seen order). TLC checks StoredOnce, PrintIdentity and ReimportEquivalent for every file of 1..2 (quick) / 3 (thorough) "
      "lines over an 8-entry attribute menu x 12 column shapes x 36 dialects x checklines 0..2, and prints each file with the expected dialect, stored rows and printed text. "
      "Each is imported by the code (file and :memory:, keep_order, sort_attribute_values), reopened from disk and re-imported from its own print; random Unicode candidate "
      "files and the first lines of 25 repository data files are predicted by the same model (Gen_Import) and compared row by row.",
      TB + "Files consist of feature lines; coordinates are '.' or canonical decimals.",
      "TLA+ composed spec (ImportModel over AttrSyntax/Dialect/GffDB) + TLC fidelity theorems over small files x dialects + spec-predicted content for generated and real files compared with the code")


# ---- what later rounds added to every check (appended to the level texts; details in DESIGN.md sections 7.3 and 9) ----
ADDED = {
    "C01": " Added later: the same lines as non-generator one-shot iterators and through a gzipped file:// URL without a final newline; a consistent block repeated to thousands of lines (stored once, in order, byte-identical); 18 column/extra shapes incl. exactly one '.' coordinate.",
    "C02": " Added later: MC_DB02!InvBlockCompose (a file followed by its renamed copy imports to the union) and a scaled forest of ~2800 lines composed from the model's blocks, with one delete() of hundreds of ids; iter_by_parent_childs with ordering arguments.",
    "C03": " Added later: a coordinate-0 exon and a transcript-less exon in the menu; MC_DB03C (block composition of the GTF importer) and a scaled GTF with > 1000 lines before the first explicit gene/transcript line; replayable data-file clauses.",
    "C04": " Added later: keys that differ only in letter case, %-escaped spellings and case variants of stored keys as absent keys, tuple argument forms, a colon inside an autoincrement base, GffDB!Lookup on ONE live handle through update/delete/reopen histories (db[key] after the returned object was edited), Handle.tla / MC_Handle.",
    "C05": " Added later: attribute keys named like columns, keys differing by a trailing blank or in case, zero-length arrivals, the same Feature objects imported again after a 'merge' import; the private duplicates table and the number of meta rows are not verdicts; derived GTF features compared on what C03 fixes.",
    "C06": " Added later: histories on ONE handle (query, update beyond every earlier extent / on a new seqid, delete, move-and-replace, coordinate-moving transform, query again) judged against the rows stored at that moment; seqids differing only in case; a query that raises is an answer; Handle.tla / MC_Handle region battery.",
    "C07": " Added later: every line is parsed twice with the first result edited in place in between; values that look like key=value; one-'.' coordinate shapes.",
    "C08": " Added later: the re-parsed line is the SECOND print of the same object (printing must not edit it); parser entry points are reached through wrappers that fall back to the public route.",
    "C09": " Added later: the window through list / tuple / generator of Features; the dialect a reopened database reports after an update with other-dialect Features; only the entries C09 lists are verdicts (not 'leading semicolon' / 'multival separator').",
    "C10": " Added later: an unreadable .bak is an observation; MC_Compose10 (block composition of create/delete/update) and a scaled history (one delete of 1400 ids, one update of 1400 features, reopen); full garbage collection after failed updates (no dependence on allocation history); order and free columns of derived features are not verdicts.",
    "C11": " Added later: battery / delete / update / battery histories on ONE handle judged against the rows stored at that moment; reversed stored records; Handle.tla / MC_Handle count and order battery.",
    "C12": " Added later: Trace_Bins decides by the STATEMENT (OneBin_Decl incl. the empty interval, a declarative SetDecl on the returned runs); equality with the transcription of bins.py is reported as drift only.",
    "C13": " Added later: attribute-less lines, coordinate 0 and start tallies in inspect(), default and caller-owned look_for used repeatedly, a raising transform, file:// URL and no-final-newline forms.",
    "C14": " Added later: create_db with dialect= and with other importer options, CRLF files (plain and gzipped), the empty directive '##', 2100 directives in one file.",
    "C15": " Added later: identical unsorted/repeated attributes on both neighbours, mixed-case values, update_attributes without merge_attributes, new_featuretype='' (TypeGiven).",
    "C16": " Added later: merge_all judged on a fresh connection after close() without any harness commit, by signatures (merged ids only fresh and distinct), alone and scaled (320 gene models on per-block seqids in one database); criteria as tuple / generator / iterator; of a merged output only extent, children and member-agreed columns are verdicts.",
    "C17": " Added later: AttrStore!Load (plain dict / stored JSON with scalars, read back from a database), objects hashed before an edit, twin database features, lines ending in white space, a shared key with an empty list; no private attributes of the library are read.",
    "C18": " Added later: IUPAC codes in Intervals!Comp and in the references, the same transcript asked again with other block/thick/thin/name/colour arguments on one handle, look-alike child types; only the fields C18 fixes are verdicts (others: drift).",
    "C19": " Added later: statement classification (temp objects and transaction brackets are not writes), bytes after reads are a note when the logical content and the stored dialect are unchanged, text sources with directives mixed with object sources in one process, a database file not named *.db, levels 3-4 in the read battery, merge_all before the reads.",
    "C20": " Added later: the verdict is ConcurrentDecl!DJudge (any number of own, freshly named directory entries; k-th read-back = solitary k-th read-back; nothing left at done), MC_Concurrent!DeclAccepts (the code's protocol refines it, fixed names do not), same-basename outputs in different directories, gzip inputs (also with a FASTA section), private sub-directories as entries.",
}
for _pid, _txt in ADDED.items():
    CHECKS[_pid]["text"] = CHECKS[_pid]["text"] + _txt
