from .manifest import check, NOT_YET
