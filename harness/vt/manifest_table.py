CHECKS = {}   # id -> dict(text, note, technique, engine, design)
NOT_YET = {}  # id -> reason


def check(pid, text, note, technique, engine="tlc", design=None):
    CHECKS[pid] = dict(text=text, note=note, technique=technique, engine=engine, design=design or "DESIGN.md section 5 (%s)" % pid)

TB = ("Trusted: TLC/SANY (and Apalache where named), the JSON<->TLA+ value mapping, the projection code in harness/vt "
      "(no oracle: it drives the API and projects objects), CPython/sqlite3 of /venv, and that the declarative layer "
      "of the module is a faithful reading of the property text. ")

check("C12",
      "Bins.tla transcribes bins.bins (algorithmic layer) and states the property from bin extents (declarative layer). "
      "Apalache proves containment, tightness, set completeness/nearness, the out-of-range rule and the index lemma "
      "(single bin of one interval is in the bin set of any overlapping interval) for ALL coordinates -4..2^29+4; TLC checks the same "
      "invariants exhaustively on every pair of boundary coordinates and generates them as cases. Every case and 2*10^4 (quick) / 2*10^5 "
      "(thorough) random pairs are executed on the code (bins.bins both forms, Feature.bin, stored bin column) and judged by Trace_Bins.",
      TB + "TLC integers are 32-bit, so coordinates stay below 2^31.",
      "TLA+ spec (Bins/BinsX) + Apalache lemmas for all coordinates + TLC boundary enumeration + trace validation of real calls (Trace_Bins)",
      engine="tlc+apalache")
