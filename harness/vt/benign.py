"""./check benign [names,comma] : specificity of the checks.  Every change kept under /verif/benign/<name>/ (patch.diff + meta.json) preserves
all listed properties (refactorings, equivalent SQL, other temp-file names, extra read-only statements, ...).  Each is applied to a scratch
worktree of /repo outside /repo and /verif and ALL quick checks (or meta["checks"]) are run against that tree; every one must exit 0 without a
VIOLATION line.  Results go to /verif/selftest/benign.json; /repo is never touched."""
import glob
import json
import os
import shutil
import subprocess
import sys
import tempfile
import time
from concurrent.futures import ThreadPoolExecutor

from . import core

ALL = ["C%02d" % i for i in range(1, 21)]


def run_one(name, tier="quick", par=3):
    d = os.path.join(core.VERIF, "benign", name)
    meta = json.load(open(os.path.join(d, "meta.json")))
    work = tempfile.mkdtemp(prefix="vt_benign_")
    tree = os.path.join(work, "tree")
    res = {"name": name}
    try:
        subprocess.run(["git", "-C", core.REPO, "worktree", "add", "-q", "--detach", tree, "HEAD"], check=True, stdout=subprocess.DEVNULL, stderr=subprocess.DEVNULL)
        p = subprocess.run(["git", "-C", tree, "apply", os.path.join(d, "patch.diff")], stdout=subprocess.PIPE, stderr=subprocess.STDOUT)
        if p.returncode != 0:
            res["result"] = "patch_does_not_apply"
            res["detail"] = p.stdout.decode()[-300:]
            return res
        t = time.time()

        def one(c):
            env = dict(os.environ, VERIF_REPO=tree, VERIF_EVIDENCE_DIR=os.path.join(work, "evidence"), VERIF_REPLAY_DIR=os.path.join(work, "replays"))
            q = subprocess.run([os.path.join(core.VERIF, "check"), c, "--tier", tier], env=env, stdout=subprocess.PIPE, stderr=subprocess.STDOUT, cwd=core.VERIF)
            txt = q.stdout.decode("utf-8", "replace")
            bad = [l for l in txt.splitlines() if l.startswith("VIOLATION") or l.startswith("MACHINERY")][:2]
            detail = None
            if bad and bad[0].startswith("VIOLATION") and "replay=" in bad[0]:
                rp = bad[0].split("replay=")[1].split()[0]
                try:
                    detail = json.dumps(json.load(open(rp)))[:1500]
                except Exception:  # noqa
                    pass
            return c, {"exit": q.returncode, "alarm": [b[:300] for b in bad], "first_replay": detail}
        with ThreadPoolExecutor(par) as ex:
            outs = dict(ex.map(one, meta.get("checks") or ALL))
        res["checks"] = {c: o for c, o in outs.items() if o["exit"] != 0}
        res["passed"] = sorted(c for c, o in outs.items() if o["exit"] == 0)
        res["wall_s"] = round(time.time() - t, 1)
        res["result"] = "quiet" if not res["checks"] else "ALARM"
        return res
    finally:
        subprocess.run(["git", "-C", core.REPO, "worktree", "remove", "--force", tree], stdout=subprocess.DEVNULL, stderr=subprocess.DEVNULL)
        shutil.rmtree(work, ignore_errors=True)


def main(a):
    only = set(a.arg.split(",")) if a.arg else None
    names = sorted(os.path.basename(os.path.dirname(p)) for p in glob.glob(os.path.join(core.VERIF, "benign", "*", "meta.json")))
    out = []
    for n in names:
        if only and n not in only:
            continue
        r = run_one(n, a.tier)
        out.append(r)
        print("%-24s %s %s" % (r["name"], r["result"], {c: (o["exit"], o["alarm"][:1]) for c, o in r.get("checks", {}).items()}))
        sys.stdout.flush()
    d = os.path.join(core.VERIF, "selftest")
    os.makedirs(d, exist_ok=True)
    log = os.path.join(d, "benign.json")
    prev = {}
    if os.path.exists(log):
        prev = {r["name"]: r for r in json.load(open(log))["results"]}
    for r in out:
        prev[r["name"]] = r
    with open(log, "w") as f:
        json.dump({"results": [prev[k] for k in sorted(prev)]}, f, indent=1)
    alarms = [r["name"] for r in out if r["result"] != "quiet"]
    print("benign: %d property-preserving changes, %d raised an alarm %s" % (len(out), len(alarms), alarms))
    return 1 if alarms else 0
