"""./check selftest [Cnn ...] : sensitivity of the checks.  Every change kept under /verif/seeded/<name>/ (patch.diff + meta.json) is applied
to a scratch worktree of /repo outside /repo and /verif, the quick check of the property it breaks is run against that tree (VERIF_REPO), and the
check is required to exit 1 with a VIOLATION line.  Evidence and replays of these runs go to a scratch directory; /repo is never touched."""
import glob
import json
import os
import shutil
import subprocess
import sys
import tempfile
import time

from . import core

_GIT = __import__("threading").Lock()      # git worktree add / remove are serialised (they edit /repo/.git/worktrees)


def run_one(name, only=None, tier="quick"):
    d = os.path.join(core.VERIF, "seeded", name)
    meta = json.load(open(os.path.join(d, "meta.json")))
    prop = meta["property"]
    if only and prop not in only and name not in only:
        return None
    work = tempfile.mkdtemp(prefix="vt_seed_")
    tree = os.path.join(work, "tree")
    res = {"name": name, "property": prop}
    try:
        with _GIT:
            subprocess.run(["git", "-C", core.REPO, "worktree", "add", "-q", "--detach", tree, "HEAD"], check=True, stdout=subprocess.DEVNULL, stderr=subprocess.DEVNULL)
        p = subprocess.run(["git", "-C", tree, "apply", os.path.join(d, "patch.diff")], stdout=subprocess.PIPE, stderr=subprocess.STDOUT)
        if p.returncode != 0:
            res["result"] = "patch_does_not_apply"
            res["detail"] = p.stdout.decode()[-300:]
            return res
        env = dict(os.environ, VERIF_REPO=tree, VERIF_EVIDENCE_DIR=os.path.join(work, "evidence"), VERIF_REPLAY_DIR=os.path.join(work, "replays"))
        checks = meta.get("caught_by") or [prop]
        t = time.time()
        outs = {}
        for c in checks if not only or prop in only or name in only else []:
            q = subprocess.run([os.path.join(core.VERIF, "check"), c, "--tier", tier], env=env, stdout=subprocess.PIPE, stderr=subprocess.STDOUT, cwd=core.VERIF)
            txt = q.stdout.decode("utf-8", "replace")
            first = [l for l in txt.splitlines() if l.startswith("VIOLATION")][:1]
            outs[c] = {"exit": q.returncode, "first_violation": first[0].split(" clause=")[-1] if first else None,
                       "summary": [l for l in txt.splitlines() if l.startswith(c + " tier=")][-1:] or txt.splitlines()[-2:]}
        res["checks"] = outs
        # the replay command must reproduce the first violation on the changed tree and report nothing on /repo
        rdir = os.path.join(work, "replays", prop)
        files = sorted(glob.glob(os.path.join(rdir, "*.json"))) if os.path.isdir(rdir) else []
        if files:
            r1 = subprocess.run([os.path.join(core.VERIF, "check"), "replay", files[0]], env=env, stdout=subprocess.PIPE, stderr=subprocess.STDOUT, cwd=core.VERIF)
            env2 = dict(env)
            env2.pop("VERIF_REPO")
            r2 = subprocess.run([os.path.join(core.VERIF, "check"), "replay", files[0]], env=env2, stdout=subprocess.PIPE, stderr=subprocess.STDOUT, cwd=core.VERIF)
            res["replay"] = {"on_changed_tree_exit": r1.returncode, "on_repo_exit": r2.returncode,
                             "ok": r1.returncode == 1 and r2.returncode == 0,
                             "tail": (r1.stdout.decode("utf-8", "replace").splitlines()[-1:] + r2.stdout.decode("utf-8", "replace").splitlines()[-1:])}
        res["wall_s"] = round(time.time() - t, 1)
        res["result"] = "caught" if any(o["exit"] == 1 and o["first_violation"] for o in outs.values()) else "MISSED"
        return res
    finally:
        with _GIT:
            subprocess.run(["git", "-C", core.REPO, "worktree", "remove", "--force", tree], stdout=subprocess.DEVNULL, stderr=subprocess.DEVNULL)
        shutil.rmtree(work, ignore_errors=True)


def main(a):
    only = set(a.arg.split(",")) if a.arg else None
    names = sorted(os.path.basename(os.path.dirname(p)) for p in glob.glob(os.path.join(core.VERIF, "seeded", "*", "meta.json")))
    out = []
    par = int(os.environ.get("VT_SELFTEST_PAR", "1"))       # VT_SELFTEST_PAR=3: three seeded changes at a time (each in its own scratch worktree)
    from concurrent.futures import ThreadPoolExecutor
    with ThreadPoolExecutor(par) as ex:
        for r in ex.map(lambda n: run_one(n, only, a.tier), names):
            if r:
                out.append(r)
                print("%-28s %-4s %s %s replay=%s" % (r["name"], r["property"], r["result"], {c: (o["exit"], o["first_violation"]) for c, o in r.get("checks", {}).items()},
                                                        r.get("replay", {}).get("ok")))
                sys.stdout.flush()
    d = os.path.join(core.VERIF, "selftest")
    os.makedirs(d, exist_ok=True)
    log = os.path.join(d, "last.json")
    prev = {}
    if only and os.path.exists(log):
        prev = {r["name"]: r for r in json.load(open(log))["results"]}
    for r in out:
        prev[r["name"]] = r
    with open(log, "w") as f:
        json.dump({"results": [prev[k] for k in sorted(prev)]}, f, indent=1)
    missed = [r["name"] for r in out if r["result"] != "caught"]
    print("selftest: %d seeded changes, %d missed %s" % (len(out), len(missed), missed))
    return 1 if missed else 0
