"""Regenerates /verif/MANIFEST.json from the table below (python -m vt.manifest)."""
import json, os
from .core import VERIF

from .manifest_table import CHECKS, NOT_YET


def build():
    props = [json.loads(l)["id"] for l in open(os.path.join(VERIF, "properties.jsonl"))]
    checks = []
    na = []
    for p in props:
        if p in CHECKS:
            c = CHECKS[p]
            checks.append({
                "property_id": p,
                "quick_cmd": "./check %s --tier quick" % p,
                "thorough_cmd": "./check %s --tier thorough" % p,
                "evidence_file": "/verif/evidence/%s.json" % p,
                "replay_cmd_template": "./check replay {path}",
                "engine": c["engine"],
                "level_claimed": {"category": "model_checking", "text": c["text"], "design_ref": c["design"]},
                "level_note": c["note"],
                "technique": c["technique"],
            })
        else:
            na.append({"property_id": p, "reason": NOT_YET.get(p, "check not built yet in this round; see DESIGN.md section 5 for the plan")})
    man = {
        "version": 1,
        "setup_cmd": "./check setup",
        "hooks": {
            "guard": "GFFUTILS_VERIF",
            "enable": "no source hooks: the checks observe /repo through its public API, sqlite3 trace callbacks and sys.addaudithook in harness-owned processes; GFFUTILS_VERIF=1 is exported by ./check but nothing in /repo reads it",
            "baseline_off_cmd": "cd /repo && /venv/bin/python -m pytest -ra -q -p no:cacheprovider --timeout=900 --continue-on-collection-errors",
            "source_commits": [],
            "add_only": True,
        },
        "engines": [
            {"name": "tlc", "path": "/opt/veriftools/tla/tla2tools.jar", "serves_properties": sorted(CHECKS),
             "kind_free_text": "explicit-state model checker for the TLA+ specification in /verif/spec; also generates cases/behaviours and judges recorded executions (trace specifications)"},
            {"name": "apalache", "path": "/opt/veriftools/apalache", "serves_properties": [p for p in ("C06", "C12") if p in CHECKS],
             "kind_free_text": "symbolic checker used for the integer-only binning lemmas over all coordinates"},
        ],
        "checks": checks,
        "not_applicable": na,
        "notes": "One TLA+ specification tree (spec/), three uses: TLC checks the algorithmic layer against the declarative layer, TLC generates cases that the harness executes on /repo, TLC judges recorded executions. See DESIGN.md.",
    }
    with open(os.path.join(VERIF, "MANIFEST.json"), "w") as f:
        json.dump(man, f, indent=1)
        f.write("\n")
    return man


if __name__ == "__main__":
    m = build()
    print("checks:", [c["property_id"] for c in m["checks"]])
    print("not_applicable:", [c["property_id"] for c in m["not_applicable"]])
